"""
Engine T (second half) -- the two rule stores of the pruning databases (C14):
T5 key shape, T6 mapping-protocol completeness and accessor agreement, T7 raw-key normal
form at insertion and at recomputation, W1 two-way predicate agreement, W2 one store per
rule, W3 shared logic is literally shared.
"""
from __future__ import annotations

import ast
from typing import List, Optional, Tuple

from ..core import control as C
from ..core import dataflow as D
from ..core.program import (
    AnalysisError,
    AnchorError,
    enclosing_function,
    is_self_attr,
    norm,
    parent,
    walk_local,
)

STORES = ("rule_to_strategy", "eqv_rule_to_strategy")


def _is_store(e: ast.AST) -> bool:
    return isinstance(e, ast.Attribute) and e.attr in STORES


# ------------------------------------------------------------------------ T5
def _shape(e: ast.AST, f: ast.AST, depth: int = 0) -> str:
    """'tuple' | 'list' | 'set' | 'int' | '?'  (container shape of an expression)."""
    if depth > 8:
        return "?"
    e = D.strip_casts(e)
    if isinstance(e, ast.Tuple):
        return "tuple"
    if isinstance(e, (ast.List, ast.ListComp)):
        return "list"
    if isinstance(e, (ast.Set, ast.SetComp)):
        return "set"
    if isinstance(e, ast.GeneratorExp):
        return "generator"
    if isinstance(e, ast.Call):
        fn = norm(e.func)
        if fn == "tuple":
            return "tuple"
        if fn in ("sorted", "list"):
            return "list"
        if fn in ("set", "frozenset"):
            return "set"
        if fn in ("map", "filter", "zip", "reversed", "iter"):
            return "generator"
        if isinstance(e.func, ast.Attribute) and isinstance(e.func.value, ast.Name) and e.func.value.id == "self":
            # method of the same class: shape of its single return
            from ..core.program import enclosing_class
            cls = enclosing_class(f)
            if cls is not None:
                for st in cls.body:
                    if isinstance(st, ast.FunctionDef) and st.name == e.func.attr:
                        rets = [r for r in C.returns_of(st) if r.value is not None]
                        shapes = {_shape(r.value, st, depth + 1) for r in rets}
                        if len(shapes) == 1:
                            return shapes.pop()
                        if st.returns is not None:
                            return _ann_shape(st.returns)
        return "?"
    if isinstance(e, ast.BinOp) and isinstance(e.op, ast.Add):
        a, b = _shape(e.left, f, depth + 1), _shape(e.right, f, depth + 1)
        return a if a == b else "?"
    if isinstance(e, ast.Subscript) and isinstance(e.slice, ast.Slice):
        return _shape(e.value, f, depth + 1)
    if isinstance(e, ast.Name):
        rv = D.reaching_value(f, e, e.id)
        if rv is not None:
            return _shape(rv[1], f, depth + 1)
        defs = D.definitions(f)
        ds = defs.get(e.id, [])
        shapes = set()
        for st, val, path, kind in ds:
            if kind == "param":
                a = f.args
                for arg in a.posonlyargs + a.args + a.kwonlyargs:
                    if arg.arg == e.id:
                        shapes.add(_ann_shape(arg.annotation))
            elif kind == "assign" and val is not None and not path:
                shapes.add(_shape(val, f, depth + 1))
            else:
                shapes.add("?")
        if len(shapes) == 1:
            return shapes.pop()
        return "?"
    return "?"


def _ann_shape(ann: Optional[ast.AST]) -> str:
    if ann is None:
        return "?"
    t = norm(ann)
    head = t.split("[")[0].split(".")[-1]
    return {"Tuple": "tuple", "tuple": "tuple", "List": "list", "list": "list", "Set": "set", "RuleKey": "tuple",
            "int": "int"}.get(head, "?")


def _key_uses(P) -> List[Tuple[ast.AST, ast.AST, str, ast.AST]]:
    """(function node, key expression, description, site node) for every use of a key
    with one of the two stores."""
    out = []
    for fi in P.all_functions():
        f = fi.node
        for n in walk_local(f):
            if isinstance(n, ast.Subscript) and _is_store(n.value):
                out.append((f, n.slice, f"{norm(n.value)}[...]", n))
            elif isinstance(n, ast.Compare) and len(n.ops) == 1 and isinstance(n.ops[0], (ast.In, ast.NotIn)) \
                    and _is_store(n.comparators[0]):
                out.append((f, n.left, f"in {norm(n.comparators[0])}", n))
            elif isinstance(n, ast.Call) and isinstance(n.func, ast.Attribute) and n.func.attr in ("pop", "get", "setdefault", "__contains__", "__getitem__") \
                    and _is_store(n.func.value) and n.args:
                out.append((f, n.args[0], f"{norm(n.func)}(...)", n))
    return out


def t5_key_shape(ctx) -> None:
    P = ctx.P
    uses = _key_uses(P)
    for f, key, desc, site in uses:
        ctx.analysed(f)
        defs = D.definitions(f)
        k = key
        if isinstance(k, ast.Name):
            rv = D.reaching_value(f, k, k.id)
            if rv is not None:
                k = rv[1]
            else:
                k = D.resolve(defs, k)
        bad = None
        if isinstance(k, ast.Tuple) and len(k.elts) == 2:
            sh = _shape(k.elts[1], f)
            if sh in ("list", "set", "generator"):
                bad = f"children component `{norm(k.elts[1])}` is a {sh}"
            elif sh == "int":
                bad = f"children component `{norm(k.elts[1])}` is a single label, not a tuple of labels (`(x)` is not `(x,)`)"
            s0 = _shape(k.elts[0], f)
            if s0 in ("list", "set", "tuple", "generator"):
                bad = f"parent component `{norm(k.elts[0])}` is a {s0}, expected a label"
        elif isinstance(k, (ast.List, ast.ListComp, ast.Set)):
            bad = "the key itself is a list/set"
        elif isinstance(k, ast.Tuple) and len(k.elts) != 2:
            bad = f"key has {len(k.elts)} components, expected (parent, children)"
        if bad:
            ctx.violation("T5", site, f"store key used with {desc} is not an (int, tuple) rule key: {bad}; "
                          "the lookup raises TypeError (dict) / cannot be flattened (memory-saving store) for every input")
        else:
            ctx.ok("T5", f"{P.loc(site)} {desc} key `{norm(key)[:50]}`")
    if len(uses) < 12:
        ctx.floor("T5", 12)


# ------------------------------------------------------------------------ T6
def PT_assign(st):
    if isinstance(st, ast.Assign) and len(st.targets) == 1:
        return st.targets[0], st.value
    if isinstance(st, ast.AnnAssign):
        return st.target, st.value
    return None, None


def t6_protocol(ctx) -> None:
    P = ctx.P
    rd = P.need_class("RecomputingDict")
    needed = ["__getitem__", "__setitem__", "__delitem__", "__iter__", "__len__", "__contains__"]
    for m in needed:
        if m in rd.methods:
            ctx.ok("T6", f"RecomputingDict.{m} defined")
        else:
            ctx.violation("T6", rd.node, f"RecomputingDict lacks {m}: the store protocol used by RuleDBBase is incomplete "
                          "(a mix-in default would iterate/compare unflattened keys)", construct=f"RecomputingDict.{m}")
    # the keys are held in a set: a key stored twice is one key (a dict has each key once)
    init = P.need_method("RecomputingDict", "__init__", own=True)
    kinds = [norm(v) for st in walk_local(init.node) for t, v in [PT_assign(st)] if t is not None and is_self_attr(t, "rules") and v is not None]
    adders = [c for m_ in rd.methods.values() for c in walk_local(m_.node) if isinstance(c, ast.Call) and isinstance(c.func, ast.Attribute)
              and is_self_attr(c.func.value, "rules") and c.func.attr in ("append", "extend", "insert", "add", "update")]
    if kinds and all(k in ("set()", "set([])") for k in kinds) and all(c.func.attr in ("add", "update") for c in adders):
        ctx.ok("T6", "RecomputingDict keeps its keys in a set")
    else:
        ctx.violation("T6", init.node, f"RecomputingDict.rules is `{kinds[0] if kinds else '?'}` filled by {sorted({c.func.attr for c in adders})}: the keys of a mapping are a set -- in a list a "
                      "rule recorded twice is listed twice, counted twice and survives being deleted once, which the default database (a dict) never shows", construct="RecomputingDict.rules kind")
    if "MutableMapping" not in rd.base_names:
        ctx.violation("T6", rd.node, "RecomputingDict is no longer a MutableMapping (pop/==/keys come from the mix-in)", construct="RecomputingDict bases")
    # flatten / unflatten inverse pair
    fl = P.need_method("RecomputingDict", "_flatten", own=True)
    un = P.need_method("RecomputingDict", "_unflatten", own=True)
    pf, pu = fl.params()[-1], un.params()[-1]
    rf = [r for r in C.returns_of(fl.node) if r.value is not None]
    ru = [r for r in C.returns_of(un.node) if r.value is not None]
    okf = len(rf) == 1 and norm(rf[0].value) in (f"({pf}[0],) + {pf}[1]", f"({pf}[0], *{pf}[1])")
    oku = len(ru) == 1 and norm(ru[0].value) in (f"({pu}[0], {pu}[1:])",)
    if okf and oku:
        ctx.ok("T6", "_flatten (a,(b..)) -> (a,b..) and _unflatten (a,b..) -> (a,(b..)) are mutually inverse")
    else:
        bad = fl if not okf else un
        ctx.violation("T6", bad.node, f"{bad.qualname} is no longer the inverse of its partner "
                      f"(flatten: {norm(rf[0].value) if rf else '?'}; unflatten: {norm(ru[0].value) if ru else '?'})", construct=bad.qualname)
    # accessor agreement: every touch of self.rules with a key goes through self._flatten(<param>)
    n = 0
    for m in rd.methods.values():
        f = m.node
        if m.name in ("__init__",):
            continue
        for node in walk_local(f):
            arg = None
            what = None
            if isinstance(node, ast.Compare) and len(node.ops) == 1 and isinstance(node.ops[0], (ast.In, ast.NotIn)) \
                    and is_self_attr(node.comparators[0], "rules"):
                arg, what = node.left, "membership in self.rules"
            elif isinstance(node, ast.Call) and isinstance(node.func, ast.Attribute) and is_self_attr(node.func.value, "rules") \
                    and node.func.attr in ("add", "remove", "discard", "__contains__") and node.args:
                arg, what = node.args[0], f"self.rules.{node.func.attr}"
            if arg is None:
                continue
            n += 1
            ctx.analysed(m)
            src = arg
            if isinstance(src, ast.Name):
                rv = D.reaching_value(f, src, src.id)
                if rv is not None:
                    src = rv[1]
            good = isinstance(src, ast.Call) and norm(src.func) in ("self._flatten", "RecomputingDict._flatten") and len(src.args) == 1
            if good:
                inner = D.strip_casts(src.args[0])
                good = isinstance(inner, ast.Name) and inner.id in m.params()
            if good:
                ctx.ok("T6", f"{m.qualname}: {what} uses self._flatten(key)")
            else:
                ctx.violation("T6", node, f"{m.qualname}: {what} with `{norm(arg)}`, not with self._flatten(<key>): "
                              "this accessor disagrees with the others on the stored form of a key")
    if n < 4:
        ctx.floor("T6", 99)
    it = P.need_method("RecomputingDict", "__iter__", own=True)
    ys = C.yields_of(it.node)
    oki = False
    for y in ys:
        if isinstance(y, ast.Yield) and isinstance(y.value, ast.Call) and norm(y.value.func) == "self._unflatten":
            loops = C.enclosing_loops(it.node, y)
            if loops and isinstance(loops[0], ast.For) and norm(loops[0].iter) == "self.rules" and norm(loops[0].target) == norm(y.value.args[0]):
                oki = True
        if isinstance(y, ast.YieldFrom) and norm(y.value) in ("map(self._unflatten, self.rules)", "(self._unflatten(rule) for rule in self.rules)"):
            oki = True
    if oki:
        ctx.ok("T6", "RecomputingDict.__iter__ yields _unflatten of every stored element")
    else:
        ctx.violation("T6", it.node, "RecomputingDict.__iter__ must yield self._unflatten(r) for each stored r", construct="RecomputingDict.__iter__")
    ln = P.need_method("RecomputingDict", "__len__", own=True)
    r = [x for x in C.returns_of(ln.node) if x.value is not None]
    if len(r) == 1 and norm(r[0].value) == "len(self.rules)":
        ctx.ok("T6", "RecomputingDict.__len__ = len(self.rules)")
    else:
        ctx.violation("T6", ln.node, "RecomputingDict.__len__ must be len(self.rules)", construct="RecomputingDict.__len__")


# ------------------------------------------------------------------------ T7
def t7_raw_key_normal_form(ctx) -> None:
    P = ctx.P
    cl = P.need_method("RuleDBBase", "_clean_labels", own=True)
    f = cl.node
    ctx.analysed(cl)
    rets = [r for r in C.returns_of(f) if r.value is not None]
    for r in rets:
        if D.sorted_tuple_of(f, r) is not None:
            ctx.ok("T7", "_clean_labels returns tuple(sorted(...))")
        else:
            ctx.violation("T7", r, "_clean_labels must return the kept child labels as tuple(sorted(...)): stored keys are compared up to order")
    gi = P.need_method("RecomputingDict", "__getitem__", own=True)
    g = gi.node
    ctx.analysed(gi)
    # the comparison that decides the match
    cmps = [n for n in walk_local(g) if isinstance(n, ast.Compare) and len(n.ops) == 1 and isinstance(n.ops[0], ast.Eq)
            and any(isinstance(x, ast.Name) and x.id == gi.params()[1] for x in [n.left, n.comparators[0]])
            and any(isinstance(x, ast.Tuple) and len(x.elts) == 2 for x in [n.left, n.comparators[0]])]
    if not cmps:
        ctx.violation("T7", g, "RecomputingDict.__getitem__ no longer compares the recomputed (start, ends) with the requested key",
                      construct="RecomputingDict.__getitem__ match")
        return
    for cmpn in cmps:
        tup = cmpn.left if isinstance(cmpn.left, ast.Tuple) else cmpn.comparators[0]
        s_e, e_e = tup.elts
        rv_s = D.reaching_value(g, s_e, s_e.id) if isinstance(s_e, ast.Name) else None
        rv_e = D.reaching_value(g, e_e, e_e.id) if isinstance(e_e, ast.Name) else None
        sv = rv_s[1] if rv_s else s_e
        ev = rv_e[1] if rv_e else e_e
        # start label = get_label(rule.comb_class)
        rule_name = _recomputed_rule_name(g)
        if isinstance(sv, ast.Call) and norm(sv.func).endswith("classdb.get_label") and len(sv.args) == 1 \
                and norm(sv.args[0]) == f"{rule_name}.comb_class":
            ctx.ok("T7", f"recomputation: start label = get_label({rule_name}.comb_class)")
        else:
            ctx.violation("T7", cmpn, f"recomputed parent label `{norm(sv)}` is not the label of the rule's own parent class "
                          f"({rule_name}.comb_class): rules whose parent differs from the class the strategy was applied to are never matched")
        # ends = tuple(sorted(labels of the rule's non-empty children))
        if isinstance(ev, ast.Call) and norm(ev.func) == "tuple" and ev.args and isinstance(ev.args[0], ast.Call) and norm(ev.args[0].func) == "sorted":
            inner = ev.args[0].args[0]
            txt = norm(inner)
            derives = _derives_from_children(g, inner, rule_name)
            if derives and "get_label" in txt:
                ctx.ok("T7", f"recomputation: ends = tuple(sorted(labels of {rule_name}.children not empty))")
            else:
                ctx.violation("T7", cmpn, f"recomputed child labels `{txt}` are not the labels of the rule's own children")
        else:
            ctx.violation("T7", cmpn, f"recomputed children component `{norm(ev)}` is not tuple(sorted(...)): it never equals a stored key "
                          "whose labels are not already ascending")
        # what is handed back: the strategy of the very rule that matched
        rets = [r for r in C.returns_of(g) if r.value is not None]
        good = [r for r in rets if norm(r.value) == f"{rule_name}.strategy" and (norm(cmpn), True) in C.guard_texts(g, r)]
        if good and len(rets) == len(good):
            ctx.ok("T7", "recomputation returns the strategy of the rule whose key matched")
        else:
            ctx.violation("T7", g, "RecomputingDict.__getitem__ may return a strategy other than that of the rule whose recomputed key equals the request",
                          construct="RecomputingDict.__getitem__ returns")
    # the pack is replayed on every label of the key (a factory may produce the rule from any of them)
    prods = [c for c in walk_local(g) if isinstance(c, ast.Call) and norm(c.func) in ("itertools.product", "product") and len(c.args) == 2 and norm(c.args[1]) in ("self.pack", "self._pack")]
    kp0 = gi.params()[1]
    if prods:
        lab = norm(D.expanded(g, prods[0].args[0]))
        if lab in (f"({kp0}[0],) + {kp0}[1]", f"self._flatten({kp0})", f"({kp0}[0], *{kp0}[1])", f"tuple(itertools.chain([{kp0}[0]], {kp0}[1]))"):
            ctx.ok("T7", "recomputation replays the pack on the parent and on every child of the key")
        else:
            ctx.violation("T7", prods[0], f"the pack is replayed on `{lab}`; it must be replayed on all labels of the key (({kp0}[0],) + {kp0}[1]): a rule made by a factory from "
                          "the label left out is never recomputed")
    else:
        other = [c for c in walk_local(g) if isinstance(c, ast.Call) and norm(c.func) in ("itertools.product", "product") and len(c.args) == 2]
        if other:
            src = norm(D.expanded(g, other[0].args[1]))
            ctx.violation("T7", other[0], f"the strategies replayed are `{src[:80]}`, not the whole pack (self.pack): a rule made by a strategy that is left out -- a "
                          "verification strategy with dependency children, a symmetry -- can never be recomputed")
        else:
            raise AnalysisError("T7: RecomputingDict.__getitem__ no longer walks itertools.product(<labels>, self.pack)")
    # membership before recomputation
    first = g.body[0]
    raises = [r for r in C.raises_of(g) if r.exc is not None and norm(r.exc).startswith("KeyError")]
    kp = gi.params()[1]

    def _not_stored(r) -> bool:
        for t, pol in C.flatten_guards(C.guards(g, r)):
            if isinstance(t, ast.Compare) and len(t.ops) == 1 and isinstance(t.ops[0], (ast.In, ast.NotIn)) and norm(t.comparators[0]) == "self.rules":
                absent = (isinstance(t.ops[0], ast.NotIn) and pol) or (isinstance(t.ops[0], ast.In) and not pol)
                if absent and norm(D.expanded(g, t.left)) == f"self._flatten({kp})":
                    return True
        return False

    if raises and any(_not_stored(r) for r in raises):
        ctx.ok("T7", "__getitem__ raises KeyError for a key that was never stored (as a dict would)")
    else:
        ctx.violation("T7", g, "RecomputingDict.__getitem__ must raise KeyError for keys that are not stored (the extractor relies on it, as with a dict)",
                      construct="RecomputingDict.__getitem__ KeyError")


def _recomputed_rule_name(g: ast.AST) -> str:
    for n in walk_local(g):
        if isinstance(n, ast.Return) and isinstance(n.value, ast.Attribute) and n.value.attr == "strategy" and isinstance(n.value.value, ast.Name):
            return n.value.value.id
    return "rule"


def _derives_from_children(g: ast.AST, e: ast.AST, rule_name: str, depth: int = 0) -> bool:
    if depth > 5:
        return False
    if f"{rule_name}.children" in norm(e):
        return True
    for n in ast.walk(e):
        if isinstance(n, ast.Name) and n.id not in ("self", "map", "sorted", "tuple"):
            rv = D.reaching_value(g, n, n.id) if parent(n) is not None else None
            if rv is not None and _derives_from_children(g, rv[1], rule_name, depth + 1):
                return True
    return False


# ------------------------------------------------------------------- W1..W3
def w_insertion_discipline(ctx) -> None:
    P = ctx.P
    add = P.need_method("RuleDBBase", "add", own=True)
    f = add.node
    ctx.analysed(add)
    rule_p = add.params()[3] if len(add.params()) > 3 else "rule"
    two_way = f"{rule_p}.is_two_way()"
    n_eq = 0
    for n in walk_local(f):
        is_eqv_store = isinstance(n, ast.Subscript) and isinstance(n.ctx, ast.Store) and is_self_attr(n.value, "eqv_rule_to_strategy")
        is_edge = isinstance(n, ast.Call) and norm(n.func) == "self.equivdb.add_two_way_edge"
        if is_eqv_store or is_edge:
            n_eq += 1
            gt = C.guard_texts(f, n)
            if (two_way, True) in gt:
                ctx.ok("W1", f"RuleDBBase.add: `{norm(C.stmt_of(n))[:50]}` only for two-way rules")
            else:
                ctx.violation("W1", C.stmt_of(n), f"a rule is filed as a two-way equivalence without the `{two_way}` test: the default database "
                              "then hands back a one-way strategy from its equivalence table and the memory-saving one cannot recompute it")
    # what is filed depends on the rule that arrives, not on what the stores already hold: a key first seen with a one-way
    # rule and then with a two-way one is upgraded (edge in both directions, classes merged)
    for r in C.returns_of(f):
        dep = [t for t, _p in C.guard_texts(f, r) if "self." in t and "_clean_labels" not in t]
        if dep:
            ctx.violation("W1", r, f"RuleDBBase.add gives up under `{dep[0][:60]}`, a test on what the database already holds: a key recorded first by a one-way rule is "
                          "then never upgraded when the two-way rule for the same classes arrives, so the two classes are never merged")
    if n_eq < 2:
        ctx.violation("W1", f, "RuleDBBase.add no longer files two-way single-child rules in the equivalence store", construct="RuleDBBase.add equivalence branch")
    # recomputation applies the same predicate
    gi = P.need_method("RecomputingDict", "__getitem__", own=True)
    g = gi.node
    rn = _recomputed_rule_name(g)
    conts = [n for n in walk_local(g) if isinstance(n, (ast.Continue,))]
    okp = any(("self.only_equiv", True) in C.guard_texts(g, c) and (f"{rn}.is_two_way()", False) in C.guard_texts(g, c) for c in conts)
    rets = [r for r in C.returns_of(g) if r.value is not None]
    okp = okp or any((f"{rn}.is_two_way()", True) in C.guard_texts(g, r) for r in rets)
    if okp:
        ctx.ok("W1", "RecomputingDict(only_equiv) accepts a recomputed rule under the same predicate is_two_way()")
    else:
        ctx.violation("W1", g, "the equivalence store recomputes strategies without requiring is_two_way(), the predicate under which rules were filed there",
                      construct="RecomputingDict.__getitem__ only_equiv")
    # W2: a rule is in one store only: filing a two-way rule removes both orientations from the general store
    pops = [c for c in walk_local(f) if isinstance(c, ast.Call) and norm(c.func) == "self.rule_to_strategy.pop"]
    fwd = [c for c in pops if len(c.args) == 2 and (two_way, True) in C.guard_texts(f, c)]
    if len(fwd) >= 2:
        ctx.ok("W2", "filing a two-way rule removes both orientations from the general store (with a default, so absent keys are fine)")
    else:
        ctx.violation("W2", f, "when a two-way rule is filed, both orientations must be popped (with a default) from the general store; "
                      "otherwise the stored rule sets depend on insertion order", construct="RuleDBBase.add pops")
    # single-child one-way rules record the edge
    edges = [c for c in walk_local(f) if isinstance(c, ast.Call) and norm(c.func) == "self.equivdb.add_one_way_edge"]
    if edges and all((two_way, False) in C.guard_texts(f, c) for c in edges):
        ctx.ok("W2", "one-way single-child rules record a one-way edge")
    else:
        ctx.violation("W2", f, "one-way single-child rules must record a one-way edge (cycles of them are equivalences)", construct="RuleDBBase.add one-way edge")
    # ... whatever kind of rule it is: the only way out of add() before that is the rule from a class to itself
    for r in C.returns_of(f) + [x for x in walk_local(f) if isinstance(x, ast.Raise)]:
        if edges and r.lineno < edges[0].lineno and not isinstance(r, ast.Raise):
            gs = {(norm(e), p_) for e, p_ in C.flatten_guards(C.guards(f, r))}
            kinds = [t for t, p_ in gs if "isinstance(" in t or ".is_" in t or "Verification" in t]
            if kinds:
                ctx.violation("W2", r, f"RuleDBBase.add is left under {sorted(kinds)} before the single-child branch: a one-child rule of that kind records no edge in the "
                              "equivalence database, so a cycle of one-way rules through it is never recognised (its classes stay apart and are pruned as if productive)")
    # iteration and membership look at both stores
    it = P.need_method("RuleDBBase", "__iter__", own=True)
    t = norm(it.node)
    if "self.rule_to_strategy" in t and "self.eqv_rule_to_strategy" in t:
        ctx.ok("W2", "RuleDBBase.__iter__ covers both stores")
    else:
        ctx.violation("W2", it.node, "RuleDBBase.__iter__ must iterate over both stores", construct="RuleDBBase.__iter__")
    co = P.need_method("RuleDBBase", "contains", own=True)
    t = norm(co.node)
    if "in self.rule_to_strategy" in t and "in self.eqv_rule_to_strategy" in t:
        ctx.ok("W2", "RuleDBBase.contains looks in both stores")
    else:
        ctx.violation("W2", co.node, "RuleDBBase.contains must look in both stores", construct="RuleDBBase.contains")


SANCTIONED_OVERRIDES = {
    "RuleDB": {"__init__", "rule_to_strategy", "eqv_rule_to_strategy", "all_rules", "all_equations"},
    "RuleDBForgetStrategy": {"__init__", "link_searcher", "rule_to_strategy", "eqv_rule_to_strategy"},
}


def w3_shared_logic(ctx) -> None:
    P = ctx.P
    base = P.need_class("RuleDBBase")
    for cname, allowed in SANCTIONED_OVERRIDES.items():
        cls = P.need_class(cname)
        if base not in P.mro(cls):
            ctx.violation("W3", cls.node, f"{cname} no longer derives from RuleDBBase: the two databases do not share their logic", construct=f"{cname} bases")
            continue
        extra = sorted(set(cls.methods) - allowed)
        overriding = [m for m in extra if P.find_method(base, m) is not None]
        ctx.extra.setdefault("overrides", {})[cname] = sorted(cls.methods)
        if overriding:
            for m in overriding:
                ctx.violation("W3", cls.methods[m].node, f"{cname} overrides RuleDBBase.{m}: the observation is no longer computed by the same code "
                              "in both databases", construct=f"{cname}.{m}")
        else:
            ctx.ok("W3", f"{cname} overrides only {sorted(set(cls.methods) & allowed)}")
    # link_searcher links both stores to the same classdb and pack
    ls = P.need_method("RuleDBForgetStrategy", "link_searcher", own=True)
    t = norm(ls.node)
    if "self.rule_to_strategy.link_searcher(" in t and "self.eqv_rule_to_strategy.link_searcher(" in t and "super().link_searcher(" in t:
        ctx.ok("W3", "RuleDBForgetStrategy.link_searcher links both stores")
    else:
        ctx.violation("W3", ls.node, "RuleDBForgetStrategy.link_searcher must link both recomputing stores and call super()", construct="RuleDBForgetStrategy.link_searcher")
    init = P.need_method("RuleDBForgetStrategy", "__init__", own=True)
    t = norm(init.node)
    if "self._rule_to_strategy = RecomputingDict(only_equiv=False)" in t and "self._eqv_rule_to_strategy = RecomputingDict(only_equiv=True)" in t:
        ctx.ok("W3", "general store recomputes any rule, equivalence store only two-way rules")
    else:
        ctx.violation("W3", init.node, "the general store must be RecomputingDict(only_equiv=False) and the equivalence store RecomputingDict(only_equiv=True)",
                      construct="RuleDBForgetStrategy.__init__ stores")


def w4_pack_iteration(ctx) -> None:
    """Recomputation replays *the pack*: iterating a StrategyPack must cover every list of
    strategies it holds (a list left out makes the rules it produced unrecoverable)."""
    P = ctx.P
    init = P.need_method("StrategyPack", "__init__", own=True)
    it = P.need_method("StrategyPack", "__iter__", own=True)
    ctx.analysed(it)
    a = init.node.args
    strat_params = [x.arg for x in a.posonlyargs + a.args + a.kwonlyargs if x.annotation is not None and "CSSstrategy" in norm(x.annotation)]
    attrs = []
    for n in walk_local(init.node):
        if isinstance(n, ast.Assign) and len(n.targets) == 1 and is_self_attr(n.targets[0]):
            names = {x.id for x in ast.walk(n.value) if isinstance(x, ast.Name)}
            if names & set(strat_params):
                attrs.append(n.targets[0].attr)
    if len(attrs) < 5:
        raise AnalysisError(f"W4: expected five strategy lists in StrategyPack.__init__, found {attrs}")
    mentioned = {x.attr for x in ast.walk(it.node) if is_self_attr(x)}
    missing = sorted(set(attrs) - mentioned)
    # nesting: a parameter annotated Iterable[Iterable[...]] holds lists of strategies, the others strategies
    nested = set()
    for x in a.posonlyargs + a.args + a.kwonlyargs:
        if x.annotation is not None and norm(x.annotation).count("Iterable[") >= 2:
            for n in walk_local(init.node):
                if isinstance(n, ast.Assign) and len(n.targets) == 1 and is_self_attr(n.targets[0]) and x.arg in {y.id for y in ast.walk(n.value) if isinstance(y, ast.Name)}:
                    nested.add(n.targets[0].attr)
    for c in ast.walk(it.node):
        if isinstance(c, ast.Call) and norm(c.func) in ("chain", "itertools.chain"):
            for arg in c.args:
                starred = isinstance(arg, ast.Starred)
                base = arg.value if starred else arg
                if isinstance(base, ast.Subscript) and is_self_attr(base.value) and base.value.attr in attrs:
                    ctx.violation("W4", arg, f"only the part `{norm(base)}` of self.{base.value.attr} is iterated: the strategies left out can never be replayed, so the rules they "
                                  "made cannot be recomputed (nor found again by the forest extractor)")
                if is_self_attr(base) and base.attr in attrs:
                    if starred and base.attr not in nested:
                        ctx.violation("W4", arg, f"`*self.{base.attr}` hands each *strategy* of a flat list to chain() as if it were a list: iterating the pack fails (or "
                                      "iterates into the strategy) as soon as the pack has such a strategy")
                    if not starred and base.attr in nested:
                        ctx.violation("W4", arg, f"`self.{base.attr}` is a list of lists of strategies: chained unstarred, the pack yields lists instead of strategies")
        if isinstance(c, ast.YieldFrom) and is_self_attr(c.value) and c.value.attr in nested:
            ctx.violation("W4", c, f"`yield from self.{c.value.attr}` yields lists of strategies, not strategies")
    if missing:
        ctx.violation("W4", it.node, f"StrategyPack.__iter__ leaves out {missing}: the memory-saving database and the forest extractor replay the pack by iterating "
                      "it, so rules produced by those strategies can never be recomputed", construct="StrategyPack.__iter__ coverage")
    else:
        ctx.ok("W4", f"StrategyPack.__iter__ covers every strategy list {sorted(attrs)}")


def t6b_flat_keys_are_elements(ctx) -> None:
    """RecomputingDict keeps its keys flattened in a set: a flattened key is one element of that
    set (add / remove / discard / in).  Handed to a set *operation* (update,
    difference_update, ...) it is iterated, and its integers are added / removed."""
    P = ctx.P
    rd = P.need_class("RecomputingDict")
    n = 0
    for m in rd.methods.values():
        for c in walk_local(m.node):
            if isinstance(c, ast.Call) and isinstance(c.func, ast.Attribute) and is_self_attr(c.func.value, "rules") and c.args \
                    and any(isinstance(x, ast.Call) and norm(x.func).endswith("_flatten") for x in ast.walk(D.expanded(m.node, c.args[0]))):
                n += 1
                if c.func.attr in ("add", "remove", "discard", "__contains__"):
                    ctx.ok("T6", f"RecomputingDict.{m.name}: the flattened key is one element (`{c.func.attr}`)")
                else:
                    ctx.violation("T6", c, f"RecomputingDict.{m.name} hands a flattened key to `rules.{c.func.attr}`, which iterates it: the integers of the key are "
                                  "added to / removed from the set of keys, the key itself is untouched")
    if n < 2:
        ctx.floor("T6", 99)


def w5_replay_is_exhaustive(ctx) -> None:
    """The memory-saving tables keep every key they are given and find its strategy again by
    replaying the whole pack on every label of the key.
    (a) __setitem__ stores unconditionally (the default database, a dict, does);
    (b) the replay skips a (label, strategy) pair only because the strategy does not apply or
        the rule is of the wrong kind for this table -- never because of what was seen
        earlier in the replay: the pack is not iterated in the order the searcher applied it;
    (c) every exception that reading `rule.children` can raise to say "does not apply" is
        caught around that read."""
    P = ctx.P
    # (a)
    sm = P.need_method("RecomputingDict", "__setitem__", own=True)
    ctx.analysed(sm)
    adds = [c for c in walk_local(sm.node) if isinstance(c, ast.Call) and isinstance(c.func, ast.Attribute) and is_self_attr(c.func.value, "rules") and c.func.attr == "add"]
    if not adds:
        raise AnalysisError("W5: RecomputingDict.__setitem__ no longer adds the key to self.rules")
    for a in adds:
        gs = [(norm(e), p_) for e, p_ in C.flatten_guards(C.guards(sm.node, a)) if not isinstance(getattr(e, "_parent", None), ast.Assert)]
        if gs:
            ctx.violation("W5", a, f"RecomputingDict.__setitem__ keeps a key only under {sorted(t for t, _ in gs)[:2]}: RuleDBBase.add files the rule in both kinds of database, "
                          "but only the default one (a dict) then has it -- the stored rules, membership and counts of the two databases differ")
        else:
            ctx.ok("W5", "RecomputingDict.__setitem__ keeps every key it is given")
    # (b)
    gi = P.need_method("RecomputingDict", "__getitem__", own=True)
    g = gi.node
    ctx.analysed(gi)
    rn = _recomputed_rule_name(g)
    loops = [l for l in walk_local(g) if isinstance(l, ast.For)]
    replay = [l for l in loops if "self.pack" in norm(D.expanded(g, l.iter))]
    if not replay:
        raise AnalysisError("W5: RecomputingDict.__getitem__ no longer replays self.pack")
    rl = replay[0]
    n_skip = 0
    for x in walk_local(rl):
        if not isinstance(x, (ast.Continue, ast.Break)):
            continue
        n_skip += 1
        in_handler = any(isinstance(p_, ast.ExceptHandler) for p_ in _ancestors_of(x, rl))
        gs = [(norm(e), p_) for e, p_ in C.flatten_guards(C.guards(g, x, within=rl))]
        kind_only = bool(gs) and all(("only_equiv" in t) or (".is_two_way()" in t) or ("isinstance(" in t) or t.startswith(f"({rn}.") or " == key" in t or "!= key" in t for t, _ in gs)
        if in_handler or kind_only:
            ctx.ok("W5", f"the replay moves on ({type(x).__name__.lower()}) only when a strategy does not apply or the rule is of the other kind")
        else:
            ctx.violation("W5", x, f"the replay skips strategies under {sorted(t for t, _ in gs)[:2] or 'no condition'}: the pack is replayed in its own order, not in the order the "
                          "searcher applied it, so a stored rule made by a skipped strategy can no longer be recomputed (RuntimeError where the default database answers)")
    # (c)
    ch = P.find_method(P.need_class("AbstractRule"), "children")
    if ch is None:
        raise AnalysisError("W5: AbstractRule.children not found")
    raised = sorted({norm(r.exc.func if isinstance(r.exc, ast.Call) else r.exc) for r in walk_local(ch.node) if isinstance(r, ast.Raise) and r.exc is not None})
    reads = [a for a in walk_local(rl) if isinstance(a, ast.Attribute) and a.attr == "children" and isinstance(a.ctx, ast.Load)]
    if not reads:
        raise AnalysisError("W5: the replay no longer reads rule.children")
    for exc in raised:
        k = P.classes.get(exc)
        names = {c.name for c in P.mro(k)} if k is not None else {exc}
        names |= {"Exception", "BaseException", "*"}
        for a in reads:
            caught = set()
            for _t, _h, hn in C.handlers_around(g, a):
                caught |= {n_.split(".")[-1] for n_ in hn}
            if caught & names:
                ctx.ok("W5", f"`{norm(a)}` is read under a handler for {exc}, which AbstractRule.children raises when the rule does not apply")
            else:
                ctx.violation("W5", a, f"`{norm(a)}` is read in the replay without a handler for {exc} (handlers: {sorted(caught) or 'none'}); AbstractRule.children raises it for a "
                              "factory-made rule that does not apply, so the first such rule ends the replay with an exception before the strategy that made the stored "
                              "rule is reached")
    if not raised:
        ctx.floor("W5", 99)


def _ancestors_of(node: ast.AST, stop: ast.AST) -> List[ast.AST]:
    out = []
    p_ = parent(node)
    while p_ is not None and p_ is not stop:
        out.append(p_)
        p_ = parent(p_)
    return out


def w6_linked_pack_is_the_searchers(ctx) -> None:
    """The recomputing tables replay *the searcher's pack*: link_searcher keeps the pack it is
    handed, as it is.  A pack that is filtered or rebuilt on the way in (strategies that "cannot
    matter" removed) cannot recompute the rules those strategies made."""
    P = ctx.P
    m = P.need_method("RecomputingDict", "link_searcher", own=True)
    f = m.node
    ctx.analysed(m)
    stores = [st for st in walk_local(f) if isinstance(st, ast.Assign) and any(is_self_attr(t, "_pack") for t in st.targets)]
    if not stores:
        raise AnalysisError("W6: RecomputingDict.link_searcher no longer keeps the pack in self._pack")
    params = set(m.params()[1:])
    for st in stores:
        v = st.value
        defs = D.definitions(f).get(v.id, []) if isinstance(v, ast.Name) else []
        if isinstance(v, ast.Name) and v.id in params and all(d[3] == "param" for d in defs):
            ctx.ok("W6", "the recomputing table keeps the pack it is linked with, unchanged")
        elif isinstance(v, ast.Attribute) and v.attr == "strategy_pack" and isinstance(v.value, ast.Name) and v.value.id in params:
            ctx.ok("W6", "the recomputing table keeps the searcher's pack, unchanged")
        else:
            ctx.violation("W6", st, f"RecomputingDict.link_searcher keeps `{norm(D.expanded(f, v))[:70]}` (re-bound on the way) instead of the pack it is handed: the rules made by "
                          "strategies that are no longer in it can never be recomputed (RuntimeError where the default database hands back the stored strategy)")
