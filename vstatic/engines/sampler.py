"""
Engine U -- shape of the uniform samplers (rules U1-U6), C08.
"""
from __future__ import annotations

import ast
from typing import List, Optional, Tuple

from ..core import control as C
from ..core import dataflow as D
from ..core.program import AnalysisError, AnchorError, norm, parent, walk_local

WALKS = (("DisjointUnion", "random_sample_sub_objects"), ("CartesianProduct", "random_sample_sub_objects"))


def _draw(f: ast.AST) -> Optional[Tuple[str, str, str, ast.AST]]:
    """(variable, lo, hi, stmt) of the integer draw; hi/lo as normalised text."""
    from ..core.pattern import assign_value
    for n in walk_local(f):
        tgt, val = assign_value(n)
        if isinstance(tgt, ast.Name) and isinstance(val, ast.Call):
            fn = norm(val.func)
            a = val.args
            if fn in ("randint", "random.randint") and len(a) == 2:
                return tgt.id, norm(a[0]), norm(a[1]), n
            if fn in ("randrange", "random.randrange"):
                if len(a) == 1:
                    return tgt.id, "0", f"{norm(a[0])} - 1", n
                if len(a) == 2:
                    return tgt.id, norm(a[0]), f"{norm(a[1])} - 1", n
    return None


def _cmp_normal(test: ast.AST, draw: str, acc: str) -> Optional[str]:
    """'<=' if the test means draw <= acc, '<' if draw < acc (other forms: None)."""
    neg = False
    while isinstance(test, ast.UnaryOp) and isinstance(test.op, ast.Not):
        test = test.operand
        neg = not neg
    if not (isinstance(test, ast.Compare) and len(test.ops) == 1):
        return None
    l, r, op = norm(test.left), norm(test.comparators[0]), type(test.ops[0])
    table = {ast.LtE: "<=", ast.Lt: "<", ast.GtE: ">=", ast.Gt: ">"}
    if op not in table:
        return None
    o = table[op]
    if (l, r) == (acc, draw):
        o = {"<=": ">=", "<": ">", ">=": "<=", ">": "<"}[o]
    elif (l, r) != (draw, acc):
        return None
    if neg:
        o = {"<=": ">", "<": ">=", ">=": "<", ">": "<="}[o]
    return o if o in ("<=", "<") else None


def u1_u2_walks(ctx) -> None:
    P = ctx.P
    for cname, mname in WALKS:
        m = P.need_method(cname, mname, own=True)
        f = m.node
        ctx.analysed(m)
        count_p = m.params()[1]
        d = _draw(f)
        if d is None:
            ctx.violation("U1", f, f"{m.qualname} no longer draws one integer (randint / randrange) to walk the weights", construct=f"{m.qualname} draw")
            continue
        draw, lo, hi, dst = d
        # accumulator: initialised to 0 before the loop, increased inside it
        accs = {}
        for n in walk_local(f):
            if isinstance(n, ast.AugAssign) and isinstance(n.op, ast.Add) and isinstance(n.target, ast.Name):
                accs.setdefault(n.target.id, []).append(n)
        sel = None
        for name, augs in accs.items():
            for t in walk_local(f):
                if isinstance(t, ast.If) and _cmp_normal(t.test, draw, name):
                    sel = (name, augs, t)
        if sel is None:
            ctx.violation("U1", f, f"{m.qualname}: no comparison of the draw `{draw}` with a running total found", construct=f"{m.qualname} comparison")
            continue
        acc, augs, branch = sel
        cmpn = _cmp_normal(branch.test, draw, acc)
        from ..core.pattern import assign_value as _av
        init = [n for n in walk_local(f) if _av(n)[0] is not None and norm(_av(n)[0]) == acc and _av(n)[1] is not None]
        init0 = bool(init) and all(norm(_av(n)[1]) == "0" for n in init) and all(not C.enclosing_loops(f, n) for n in init)
        ok_pair = (lo == "1" and hi == count_p and cmpn == "<=") or (lo == "0" and hi in (f"{count_p} - 1",) and cmpn == "<")
        if ok_pair and init0:
            ctx.ok("U1", f"{m.qualname}: draw in [{lo}, {hi}] compared `draw {cmpn} total`, total starts at 0: branch j gets exactly w_j of the {count_p} values")
        else:
            why = []
            if not ok_pair:
                why.append(f"draw range [{lo}, {hi}] with comparison `draw {cmpn} total` is not one of (1..N, <=) / (0..N-1, <) with N = {count_p}")
            if not init0:
                why.append("the running total does not start at 0 outside the loop")
            ctx.violation("U1", branch.test, f"{m.qualname}: " + "; ".join(why) + ": the first/last bucket gets one value too many or too few, objects are still valid but not uniform")
        # U2: accumulate before comparing, in the same loop iteration; sampler call and return inside the branch
        loops = C.enclosing_loops(f, branch)
        if not loops:
            ctx.violation("U2", branch, f"{m.qualname}: the comparison is not inside the loop over the alternatives")
            continue
        loop = loops[0]
        main_aug = [a for a in augs if C.enclosing_loops(f, a) and C.enclosing_loops(f, a)[0] is loop]
        if len(main_aug) == 1 and C.dominates(f, main_aug[0], branch):
            ctx.ok("U2", f"{m.qualname}: the weight is added to the total before the comparison, once per alternative")
        else:
            ctx.violation("U2", branch, f"{m.qualname}: the total must be increased exactly once per alternative *before* it is compared with the draw")
            continue
        rets = [r for r in walk_local(branch) if isinstance(r, ast.Return)]
        if rets and all(r.value is not None for r in rets):
            ctx.ok("U2", f"{m.qualname}: the selected alternative is sampled and returned inside the branch")
        else:
            ctx.violation("U2", branch, f"{m.qualname}: the selected alternative must be returned inside the branch")
        _weights_and_samplers(ctx, m, f, loop, main_aug[0], branch, cname)
        # the walk must end by failing loudly
        tail = f.body[-1]
        if isinstance(tail, ast.Raise):
            ctx.ok("U2", f"{m.qualname}: falling off the walk raises (cannot silently return nothing)")
        else:
            ctx.violation("U2", f, f"{m.qualname}: after the loop the function must raise", construct=f"{m.qualname} tail")


def _weights_and_samplers(ctx, m, f, loop, aug, branch, cname) -> None:
    """The weight accumulated and the sampler called use the same alternative and the same
    translated parameters."""
    if cname == "DisjointUnion":
        it = loop.iter
        if not (isinstance(it, ast.Call) and norm(it.func) == "zip" and len(it.args) == 3):
            ctx.violation("U2", loop, "union walk must zip (enumerate(subrecs), subsamplers, translated parameters)")
            return
        a = [norm(x) for x in it.args]
        if not (a[0] == "enumerate(subrecs)" and a[1] == "subsamplers" and a[2].startswith("self.get_extra_parameters(n, **parameters)")):
            ctx.violation("U2", loop, f"union walk zips ({', '.join(a)}): counter i, sampler i and the parameters translated for child i must advance together")
            return
        tg = loop.target
        try:
            idx, rec = norm(tg.elts[0].elts[0]), norm(tg.elts[0].elts[1])
            samp, ep = norm(tg.elts[1]), norm(tg.elts[2])
        except Exception:
            raise AnalysisError("U2: union walk loop target not understood")
        w = aug.value
        okw = isinstance(w, ast.Call) and norm(w.func) == rec and _kw(w) == {"n": "n", "**": ep}
        calls = [c for c in walk_local(branch) if isinstance(c, ast.Call) and norm(c.func) == samp]
        oks = bool(calls) and all(_kw(c) == {"n": "n", "**": ep} for c in calls)
        if okw and oks:
            ctx.ok("U2", "union walk: weight = count of child i for (n, translated parameters); the same child is sampled with the same arguments")
        else:
            ctx.violation("U2", aug if not okw else branch, "union walk: the weight must be rec(n=n, **extra_params) of child i and the sample subsampler(n=n, **extra_params) of the same child i")
        # U6 slot
        rets = [r for r in walk_local(branch) if isinstance(r, ast.Return) and r.value is not None]
        for r in rets:
            shape = _slot_shape(f, r.value)
            from .tablemethod import affine as _aff
            good = (shape is not None and len(shape) == 3 and shape[0][0] == "none" and shape[1][0] == "obj" and shape[2][0] == "none"
                    and shape[0][1] == {idx: 1} and shape[2][1] == {"len(subrecs)": 1, idx: -1, "1": -1})
            if good:
                ctx.ok("U6", "union walk: the sampled object is placed at slot i of the children, None elsewhere")
            else:
                ctx.violation("U6", r, f"union walk: the object must be returned at slot {idx} (that many None before it, len(subrecs)-{idx}-1 after)")
    else:
        # product: weight = product over children of rec(n=size_i, **params_i) for one composition; sampler uses the same composition
        t_loop = norm(loop.iter)
        if not t_loop.startswith("self._valid_compositions(n, **parameters)"):
            ctx.violation("U2", loop, "product walk must range over self._valid_compositions(n, **parameters)")
            return
        comp = norm(loop.target)
        w = aug.value
        if not isinstance(w, ast.Name):
            ctx.violation("U2", aug, "product walk: the weight added must be the product computed for this composition")
            return
        wname = w.id
        from ..core.pattern import assign_value as _av2
        inits = [n for n in loop.body if _av2(n)[0] is not None and norm(_av2(n)[0]) == wname and _av2(n)[1] is not None and norm(_av2(n)[1]) == "1"]
        muls = [n for n in walk_local(loop) if isinstance(n, ast.AugAssign) and isinstance(n.op, ast.Mult) and norm(n.target) == wname]
        okp = bool(inits) and len(muls) == 1
        inner = None
        if okp:
            il = C.enclosing_loops(f, muls[0])
            inner = il[0] if il and il[0] is not loop else None
            okp = inner is not None and isinstance(inner.iter, ast.Call) and norm(inner.iter.func) == "zip" and norm(inner.iter.args[0]) == "subrecs"
        if okp:
            rec, ep = norm(inner.target.elts[0]), norm(inner.target.elts[1])
            call = muls[0].value
            okp = isinstance(call, ast.Call) and norm(call.func) == rec and _kw(call) == {"n": f"{ep}.pop('n')", "**": ep}
            src = norm(inner.iter.args[1])
        if okp:
            ctx.ok("U2", "product walk: weight of a composition = product over children of their counts at that composition")
        else:
            ctx.violation("U2", aug, "product walk: the weight of a composition must start at 1 and be multiplied by rec_i(n=size_i, **params_i) for every child i (zip(subrecs, translated parameters))")
            return
        # sampler side
        gens = [g for g in walk_local(branch) if isinstance(g, ast.GeneratorExp) and isinstance(g.generators[0].iter, ast.Call) and norm(g.generators[0].iter.func) == "zip"]
        oks = False
        for g in gens:
            za = [norm(x) for x in g.generators[0].iter.args]
            if za and za[0] == "subsamplers" and len(za) == 2:
                s, ep2 = norm(g.generators[0].target.elts[0]), norm(g.generators[0].target.elts[1])
                c = g.elt
                src2 = g.generators[0].iter.args[1]
                r2 = D.reaching_value(f, src2, src2.id) if isinstance(src2, ast.Name) else None
                same_comp = r2 is not None and norm(r2[1]) == f"self.get_extra_parameters({comp})"
                # the weight loop pops "n" out of the translated dictionaries: the sampler needs a fresh translation
                if same_comp and isinstance(src2, ast.Name) and src2.id == src and "pop(" in norm(muls[0].value):
                    same_comp = any(r2[0] is st for st in ast.walk(branch))
                oks = isinstance(c, ast.Call) and norm(c.func) == s and _kw(c) == {"n": f"{ep2}.pop('n')", "**": ep2} and same_comp
        r1 = None
        for n in loop.body:
            if _av2(n)[0] is not None and norm(_av2(n)[0]) == src and _av2(n)[1] is not None:
                r1 = n
        okc = r1 is not None and norm(_av2(r1)[1]) == f"self.get_extra_parameters({comp})"
        if oks and okc:
            ctx.ok("U2", "product walk: the children are sampled at the very composition whose weight selected the branch (parameters re-translated from it)")
        else:
            ctx.violation("U2", branch, "product walk: each child must be sampled with subsampler_i(n=size_i, **params_i) taken from the same composition that was weighed")


def _kw(c: ast.Call) -> dict:
    out = {}
    if c.args:
        out["args"] = [norm(a) for a in c.args]
    for k in c.keywords:
        out[k.arg if k.arg is not None else "**"] = norm(k.value)
    return out


def u3_u4_rule_level(ctx) -> None:
    P = ctx.P
    m = P.need_method("Rule", "random_sample_object_of_size", own=True)
    f = m.node
    ctx.analysed(m)
    calls = [c for c in walk_local(f) if isinstance(c, ast.Call) and norm(c.func) == "self.constructor.random_sample_sub_objects"]
    if len(calls) != 1:
        ctx.violation("U3", f, "Rule.random_sample_object_of_size must sample the parts through constructor.random_sample_sub_objects once", construct="Rule.random_sample_object_of_size delegate")
        return
    c = calls[0]
    a = list(c.args)
    kw = {k.arg if k.arg else "**": norm(k.value) for k in c.keywords}
    first = a[0] if a else None
    src = first
    if isinstance(first, ast.Name):
        r = D.reaching_value(f, first, first.id)
        src = r[1] if r is not None else first
    okn = isinstance(src, ast.Call) and norm(src.func) == "self.count_objects_of_size" and _kw(src) in ({"n": "n", "**": "parameters"}, {"args": ["n"], "**": "parameters"})
    okrest = [norm(x) for x in a[1:]] == ["self.subsamplers", "self.subrecs", "n"] and kw.get("**") == "parameters"
    if okn and okrest:
        ctx.ok("U3", "the walk's N is count_objects_of_size(n, **parameters) of this very rule, and the same n / parameters are passed on")
    else:
        ctx.violation("U3", c, "random_sample_sub_objects must receive (self.count_objects_of_size(n=n, **parameters), self.subsamplers, self.subrecs, n, **parameters): "
                      "N must be the number of objects the weights add up to")
    ch = [x for x in walk_local(f) if isinstance(x, ast.Call) and norm(x.func) in ("random.choice", "choice")]
    rets = [r for r in C.returns_of(f) if r.value is not None]
    good = False
    if len(rets) == 1 and isinstance(rets[0].value, ast.Call) and norm(rets[0].value.func) in ("random.choice", "choice") and rets[0].value.args:
        arg = rets[0].value.args[0]
        if isinstance(arg, ast.Name):
            r = D.reaching_value(f, arg, arg.id)
            arg = r[1] if r is not None else arg
        good = isinstance(arg, ast.Call) and norm(arg.func) in ("tuple", "list") and arg.args and norm(arg.args[0]).startswith("self.backward_map(")
    if good:
        ctx.ok("U4", "the object is picked uniformly (random.choice) among all preimages of the sampled parts")
    else:
        ctx.violation("U4", rets[0] if rets else f, "the result must be random.choice over the materialised tuple of all self.backward_map(parts): taking the first / a fixed preimage is not uniform when a rule is many-to-one")


def u5_refusal(ctx) -> None:
    P = ctx.P
    m = P.need_method("CombinatorialSpecification", "random_sample_object_of_size", own=True)
    f = m.node
    ctx.analysed(m)
    calls = [c for c in walk_local(f) if isinstance(c, ast.Call) and norm(c.func) == "self.root_rule.random_sample_object_of_size"]
    if not calls:
        ctx.violation("U5", f, "the specification no longer samples through its root rule", construct="CombinatorialSpecification.random_sample_object_of_size delegate")
        return
    for c in calls:
        gt = C.guard_texts(f, c)
        ok = any(p and t in ("self.count_objects_of_size(n, **parameters) > 0", "self.count_objects_of_size(n, **parameters) >= 1", "0 < self.count_objects_of_size(n, **parameters)") for t, p in gt)
        if ok and _kw(c) in ({"args": ["n"], "**": "parameters"}, {"n": "n", "**": "parameters"}):
            ctx.ok("U5", "sampling happens only when the count for (n, parameters) is positive")
        else:
            ctx.violation("U5", c, "sampling must be guarded by `self.count_objects_of_size(n, **parameters) > 0` for the same n and parameters "
                          "(with 0 objects randint(1, 0) raises an undocumented ValueError; with >= 0 the guard is vacuous)")
    rs = [r for r in C.raises_of(f) if r.exc is not None and "InvalidOperationError" in norm(r.exc)]
    if rs:
        ctx.ok("U5", "an empty size is refused with the documented InvalidOperationError")
    else:
        ctx.violation("U5", f, "an empty size must be refused with InvalidOperationError", construct="CombinatorialSpecification.random_sample_object_of_size refusal")


def u7_parameter_ranges(ctx) -> None:
    """CartesianProduct._valid_compositions splits each parent parameter over the children.
    The values offered to the first child are the intersection of its own interval with what
    the remaining children can absorb: [max(own lower, total - rest's upper),
    min(own upper, total - rest's lower)]; the recursion continues with total - value; the
    last child takes the rest if it fits its interval."""
    from ..core import pattern as PT
    P = ctx.P
    m = P.need_method("CartesianProduct", "_valid_compositions", own=True)
    helpers = [n for n in ast.walk(m.node) if isinstance(n, ast.FunctionDef) and n is not m.node]
    if len(helpers) != 1:
        raise AnalysisError("U7: _valid_compositions no longer has one recursive helper")
    h = helpers[0]
    ctx.analysed(m)
    ps = D.param_names(h)
    mm = ps[0]
    rest_lo = PT.find_all(h, f"_M_lo = {{_M_k: sum((_M_x[_M_k][0] for _M_x in {mm}[1:])) for _M_k in self.parent_parameters}}")
    rest_hi = PT.find_all(h, f"_M_hi = {{_M_k: sum((_M_x[_M_k][1] for _M_x in {mm}[1:])) for _M_k in self.parent_parameters}}")
    if not rest_lo or not rest_hi:
        for agg in ("max", "min", "len", "any", "all"):
            for which, pos in (("lower", 0), ("upper", 1)):
                alt = PT.find_all(h, f"_M_t = {{_M_k: {agg}((_M_x[_M_k][{pos}] for _M_x in {mm}[1:])) for _M_k in self.parent_parameters}}")
                if alt:
                    ctx.violation("U7", alt[0][0], f"what the remaining children can absorb is computed with `{agg}` over their {which} bounds; it is their *sum* (each of them "
                                  "takes its own share): the values offered to the first child are cut short or run over, and the weights no longer add up to the count")
                    return
        outer = [hit for pos in (0, 1) for hit in PT.find_all(m.node, f"_M_t = {{_M_k: sum((_M_x[_M_k][{pos}] for _M_x in _M_all[1:])) for _M_k in self.parent_parameters}}")
                 if not any(hit[0] is x for x in ast.walk(h))]
        if outer:
            ctx.violation("U7", outer[0][0], f"`{norm(outer[0][0])[:70]}` is computed once, outside the recursive helper: which children *remain* changes at every level of the "
                          "recursion, so from the second child on the bounds still count the child in hand and the values it is offered are cut short -- compositions are "
                          "missing and the weights no longer add up to the count")
            return
        raise AnalysisError("U7: the sums of the remaining children's lower / upper bounds are not computed in the known way")
    lo, hi = rest_lo[0][1]["_M_lo"], rest_hi[0][1]["_M_hi"]
    own = [t.id for n in walk_local(h) for t, v in [PT.assign_value(n)] if isinstance(t, ast.Name) and v is not None and norm(v) == f"{mm}[0]"
           and not any(isinstance(g, ast.If) for g in _ancestors(n, h))]
    ranges = [c for c in ast.walk(h) if isinstance(c, ast.Call) and norm(c.func) == "range" and len(c.args) == 2]
    if not ranges:
        raise AnalysisError("U7: no candidate range in the helper of _valid_compositions")
    kw = ps[-1] if h.args.kwarg else "parameters"
    for r in ranges:
        names = own + [f"{mm}[0]"]
        good = False
        for o in names:
            for lower in (f"max({o}[_M_k][0], {kw}[_M_k] - {hi}[_M_k])", f"max({kw}[_M_k] - {hi}[_M_k], {o}[_M_k][0])"):
                for upper in (f"min({o}[_M_k][1], {kw}[_M_k] - {lo}[_M_k]) + 1", f"min({kw}[_M_k] - {lo}[_M_k], {o}[_M_k][1]) + 1"):
                    if PT.match(PT.compile_pattern(f"range({lower}, {upper})"), r) is not None:
                        good = True
        if good:
            ctx.ok("U7", "values offered to a child = [max(own lower, total - rest's upper), min(own upper, total - rest's lower)]")
        else:
            ctx.violation("U7", r, f"`{norm(r)[:150]}` is not the intersection of the child's own interval with what the remaining children can absorb "
                          f"(lower = max(own[k][0], {kw}[k] - {hi}[k]), upper = min(own[k][1], {kw}[k] - {lo}[k]) + 1): values outside a child's interval are offered, or "
                          "feasible ones left out, and the weights no longer add up to the count")
    rec = [c for c in ast.walk(h) if isinstance(c, ast.Call) and norm(c.func) == h.name]
    okr = False
    for c in rec:
        if c.args and norm(c.args[0]) == f"{mm}[1:]" and c.keywords and c.keywords[0].arg is None:
            up = c.keywords[0].value
            ds = [d for d in D.definitions(h).get(norm(up), []) if d[1] is not None]
            if ds and PT.match(PT.compile_pattern(f"{{_M_k: {kw}[_M_k] - _M_v[_M_k] for _M_k in self.parent_parameters}}"), ds[0][1]) is not None:
                okr = True
    if okr:
        ctx.ok("U7", "the recursion continues with the remaining children and total - value")
    else:
        ctx.violation("U7", h, "the helper must recurse on the remaining children with each parameter reduced by the value just given out", construct="CartesianProduct._valid_compositions recursion")
    base = PT.find_all(h, f"all(({mm}[0][_M_k][0] <= {kw}[_M_k] <= {mm}[0][_M_k][1] for _M_k in self.parent_parameters))") or \
        [x for o in own for x in PT.find_all(h, f"all(({o}[_M_k][0] <= {kw}[_M_k] <= {o}[_M_k][1] for _M_k in self.parent_parameters))")]
    if not base:
        for n2 in walk_local(h):
            t, v = PT.assign_value(n2)
            if isinstance(t, ast.Name) and v is not None and norm(v) == f"{mm}[0]":
                base = base or PT.find_all(h, f"all(({t.id}[_M_k][0] <= {kw}[_M_k] <= {t.id}[_M_k][1] for _M_k in self.parent_parameters))")
    if base:
        ctx.ok("U7", "the last child takes the rest only if it lies in its own interval")
    else:
        ctx.violation("U7", h, "for the last child the helper must test lower <= rest <= upper for every parent parameter", construct="CartesianProduct._valid_compositions base case")


def _ancestors(n, stop):
    cur = getattr(n, "_parent", None)
    while cur is not None and cur is not stop:
        yield cur
        cur = getattr(cur, "_parent", None)


def _slot_shape(f, e):
    """A tuple written as a concatenation of runs of None and single objects:
    [("none", affine count) | ("obj", text)], or None when not of that form."""
    from .tablemethod import affine
    e = D.expanded(f, e)
    parts = []

    def flat(x):
        if isinstance(x, ast.BinOp) and isinstance(x.op, ast.Add):
            flat(x.left)
            flat(x.right)
        else:
            parts.append(x)

    flat(e)
    out = []
    for p in parts:
        if isinstance(p, ast.Call) and norm(p.func) == "tuple" and len(p.args) == 1 and isinstance(p.args[0], (ast.GeneratorExp, ast.ListComp)) \
                and isinstance(p.args[0].elt, ast.Constant) and p.args[0].elt.value is None and len(p.args[0].generators) == 1 and not p.args[0].generators[0].ifs:
            it = p.args[0].generators[0].iter
            if isinstance(it, ast.Call) and norm(it.func) == "range" and len(it.args) == 1:
                a = affine(it.args[0])
                if a is None:
                    return None
                out.append(("none", a))
                continue
            return None
        if isinstance(p, ast.BinOp) and isinstance(p.op, ast.Mult):
            tup, cnt = (p.left, p.right) if isinstance(p.left, ast.Tuple) else (p.right, p.left)
            if isinstance(tup, ast.Tuple) and len(tup.elts) == 1 and isinstance(tup.elts[0], ast.Constant) and tup.elts[0].value is None:
                a = affine(cnt)
                if a is None:
                    return None
                out.append(("none", a))
                continue
            return None
        if isinstance(p, ast.Tuple) and len(p.elts) == 1:
            out.append(("obj", norm(p.elts[0])))
            continue
        return None
    return out


def u8_absent_statistic_pinned(ctx) -> None:
    """A statistic of the parent that a factor of the product does not carry contributes 0 from
    that factor: CartesianProduct.__init__ must pin it, for that child, to min = max = 0.  With
    the maximum left open the parameter split offers that child non-zero shares of a statistic
    it cannot have, and the weights no longer add up to the count."""
    P = ctx.P
    m = P.need_method("CartesianProduct", "__init__", own=True)
    f = m.node
    ctx.analysed(m)
    loops = [l for l in walk_local(f) if isinstance(l, ast.For) and norm(l.iter) == "parent.extra_parameters" and isinstance(l.target, ast.Name)
             and C.enclosing_loops(f, l)]
    if not loops:
        raise AnalysisError("U8: CartesianProduct.__init__ no longer walks the parent's statistics per child")
    lp = loops[0]
    k = lp.target.id
    # the child's table: what membership of k is tested in
    tables = set()
    for x in walk_local(lp):
        if isinstance(x, ast.Compare) and len(x.ops) == 1 and isinstance(x.ops[0], (ast.In, ast.NotIn)) and norm(x.left) == k and isinstance(x.comparators[0], ast.Name):
            tables.add(x.comparators[0].id)
    if len(tables) != 1:
        raise AnalysisError(f"U8: cannot tell which name is the child's statistic table in CartesianProduct.__init__ (membership of `{k}` is tested in {sorted(tables)})")
    par = next(iter(tables))
    absent = {f"{k} in {par}": False}
    for which in ("min_child_sizes", "max_child_sizes"):
        stores = []
        for st in walk_local(lp):
            t, v = _tv(st)
            if isinstance(t, ast.Subscript) and norm(t.slice) == k:
                base = D.expanded(f, t.value)
                if isinstance(base, ast.Subscript) and norm(base.value) == f"self.{which}":
                    stores.append(st)
        pinned = False
        for st in stores:
            t, v = _tv(st)
            run = C.runs_under(f, st, absent, within=lp)
            if run is False:
                continue
            val = v
            if isinstance(val, ast.IfExp):
                tv_ = C.truth(val.test, absent)
                val = val.body if tv_ is True else val.orelse if tv_ is False else val
            if run is True and isinstance(val, ast.Constant) and val.value == 0:
                pinned = True
        if pinned:
            ctx.ok("U8", f"a statistic the child does not carry has {which}[child][k] = 0")
        else:
            ctx.violation("U8", lp, f"for a statistic `{k}` that is not in the child's table `{par}`, self.{which}[idx][{k}] must be set to 0: the child cannot contribute to it, "
                          "and the parameter split must not offer it a share")


def _tv(st):
    if isinstance(st, ast.Assign) and len(st.targets) == 1:
        return st.targets[0], st.value
    if isinstance(st, ast.AnnAssign):
        return st.target, st.value
    return None, None


def u9_absent_maximum_bounds_nothing(ctx) -> None:
    """CartesianProduct.reliance_profile: the sizes / statistic values a child can take range
    from its minimum to min(what the siblings' minima leave, its own maximum *if it has
    one*).  `max_child_sizes` has no entry for an unbounded child; a made-up default
    (`.get(k, n)`) bounds a statistic that may well exceed the size."""
    P = ctx.P
    m = P.need_method("CartesianProduct", "reliance_profile", own=True)
    f = m.node
    ctx.analysed(m)
    # the name bound to an element of self.max_child_sizes
    mx = None
    for n in ast.walk(f):
        if isinstance(n, (ast.comprehension, ast.For)) and isinstance(n.iter, ast.Call) and norm(n.iter.func) == "zip":
            args = [norm(a) for a in n.iter.args]
            if "self.max_child_sizes" in args and isinstance(n.target, ast.Tuple):
                mx = norm(n.target.elts[args.index("self.max_child_sizes")])
    if mx is None:
        raise AnalysisError("U9: reliance_profile no longer walks self.max_child_sizes next to self.min_child_sizes")
    n_use = 0
    for n in ast.walk(f):
        if isinstance(n, ast.Subscript) and norm(n.value) == mx:
            n_use += 1
            k = norm(n.slice)
            gs = {(norm(e), p) for e, p in C.flatten_guards(C.guards(f, n))}
            if (f"{k} in {mx}", True) in gs:
                ctx.ok("U9", f"the child's maximum bounds the range only where it exists (`{k} in {mx}`)")
            else:
                ctx.violation("U9", n, f"`{norm(n)}` is read without `{k} in {mx}`: a child without a maximum has no entry")
        elif isinstance(n, ast.Call) and isinstance(n.func, ast.Attribute) and n.func.attr == "get" and norm(n.func.value) == mx:
            n_use += 1
            d = norm(n.args[1]) if len(n.args) > 1 else "None"
            if d in ("float('inf')", "math.inf", "inf", "sys.maxsize"):
                ctx.ok("U9", "an absent maximum is read as unbounded")
            else:
                ctx.violation("U9", n, f"`{norm(n)}` gives a child without a maximum the bound `{d}`: it has none (a statistic may exceed the size), so values the child can take "
                              "are left out of the profile and the objects that need them are never sampled")
    if n_use < 1:
        ctx.violation("U9", f, "reliance_profile no longer takes the children's maxima into account", construct="CartesianProduct.reliance_profile maxima")
