"""Positive fixtures for rules whose expected count on a healthy tree is zero (DESIGN.md
section 7): for each such rule one in-memory variant of /repo's *current* source that must
make the rule fire.  Run by `python -m vstatic selfcheck` (MANIFEST.setup_cmd) so that a
matcher that has silently rotted is noticed before any verdict is believed.  A fixture
whose anchor text is gone from the tree is skipped (the self-test of the thorough tier
reports that)."""
from . import mutants

# (property, variant id) pairs taken from the catalogues
FIXTURES = [
    ("C05", "C05-B-foreign-store-writer"),     # K5: nobody outside the databases mutates the stores
    ("C15", "C15-B-pop-storage"),              # T3: storage is append-only
    ("C16", "C16-B-ignore-discard"),           # Q2: the ignore set only grows
    ("C17", "C17-B-lambda-attr-queue"),        # R1: no unpicklable attribute
    ("C17", "C17-B-time-in-add-rule"),         # R3: no clock-dependent branch under a packet
    ("C18", "C18-B-F5-regress"),               # J4: no generic-alias instantiation
    ("C18", "C18-B-strategy-memo-dict"),       # J4: nothing writes __dict__ outside __init__
    ("C04", "C04-B-new-recording-site"),       # A3: no unsanctioned recording site
    ("C14", "C14-B-forget-overrides-contains"),  # W3: shared logic not overridden
    ("C03", "C03-B-foreign-function-writer"),  # F11: only the two wrappers write the function
    ("C03", "C03-B-gap-cache-partial-invalidation"),  # F12: preimage_gap reads the histogram only
    ("C11", "C11-B-forest-key-memoised"),      # E10: nothing memoises a key computed from arguments
    ("C12", "C12-B-one-sided-pairing-memo"),   # B9: matcher state is keyed by pairs
    ("C13", "C13-B-actual-rule-scan-filtered-by-raw-start"),  # K4: no raw-vs-representative shortcut
    ("C09", "C09-B-quotient-mutates-parent-terms"),  # V11: provider results are not written to
    ("C17", "C17-B-working-is-a-set"),         # R6: no label is taken out of a set by position
    ("C17", "C17-B-max-time-truthiness"),      # R7: optional limits are compared with None
    ("C18", "C18-B-verification-rule-fixed-children"),  # J3b: re-application passes only the saved class
    ("C13", "C13-B-eq-path-skipped-for-ancestors"),     # B12: path checked on every visit
    ("C17", "C17-B-Y1-method-as-truth-value"),  # Y1: a method object is always true
    ("C17", "C17-B-Y5-class-level-set"),        # Y5: no class-level container written through instances
    ("C17", "C17-B-Y10-getstate-drops-staging"),  # Y10: pickle hooks carry the whole dictionary
    ("C17", "C17-B-Y4-mutable-default-kept"),   # Y4: no kept mutable default
    ("C17", "C17-B-Y6-memo-by-id"),             # Y6: no id()/hash() key
    ("C12", "C12-B-F13-regress"),               # B15: assumed matches are withdrawn
    ("C13", "C13-B-path-left-behind-on-failure"),  # B14: bookkeeping stacks are balanced
    ("C13", "C13-B-second-search-pinned-to-base"),  # D1: no call pinned to the base class
    # rules of rounds 8 and 9 whose count on a healthy tree is zero: an independently written change (kept under /verif/seeded)
    # that must make exactly that rule fire
    ("C11", "seed:C11-r8-4", "Y12"),   # a class tested after its base class
    ("C11", "seed:C11-r9-1", "Y13"),   # closures made in a loop
    ("C17", "seed:C17-r9-2", "Y14"),   # identity of values
    ("C18", "seed:C18-r9-2", "Y15"),   # one mutable object repeated
    ("C08", "seed:C08-r9-1", "Y16"),   # __exit__ swallowing the exception
    ("C04", "seed:C04-r9-3", "Y17"),   # backing attribute read from outside
    ("C12", "seed:C12-r9-3", "Y19"),   # negated computed slice bound
    ("C13", "seed:C13-r9-2", "Y20"),   # a tuple taken for a truth value
    ("C06", "seed:C06-r8-1", "Y8"),    # Optional[int] tested for truth
    ("C05", "seed:C05-r8-2", "Y7"),    # result memo with an incomplete key
    ("C17", "seed:C17-r8-4", "R9"),    # back-reference left out by a stale name
    ("C18", "seed:C18-r8-4", "G10"),   # loader folds again
    ("C20", "seed:C20-r8-1", "G11"),   # a second writer of the label tables
    ("C09", "seed:C09-r8-1", "V13"),   # dictionaries completed on the way in
    ("C20", "seed:C20-r8-2", "V14"),   # a cheaper test before the series
    ("C09", "seed:C09-r9-2", "V15"),   # the summing map for a union-type constructor
    ("C14", "seed:C14-r8-3", "W5"),    # a key that is not kept
    ("C12", "seed:C12-r8-4", "D4"),    # indexed maps bypassing the derived forms
    ("C13", "seed:C13-r8-1", "B17"),   # representative stored before the expansion
    ("C13", "seed:C13-r8-3", "B18"),   # backtracking goes on after a complete matching
    ("C12", "seed:C12-r9-2", "B19"),   # alternative outside the kind test
    ("C11", "seed:C11-r8-1", "E15"),   # rule filed under another rule's key
    ("C04", "seed:C04-r8-1", "J7"),    # argument under another parameter
    ("C19", "seed:C19-r8-4", "X6"),    # producer / consumer exception
    ("C16", "seed:C16-r10-2", "Y21"),  # a rotation that loses an element
    ("C03", "seed:C03-r10-1", "Y22"),  # an indexed list sorted in place
    ("C19", "seed:C19-r10-3", "Y23"),  # conditional expression swallowing an operand
    ("C07", "seed:C07-r10-2", "Y24"),  # keyword order used as a position
    ("C10", "seed:C10-r10-1", "Y25"),  # a given argument re-bound
    ("C06", "seed:C06-r10-3", "D5"),   # a rule asking its strategy the neighbouring question
    ("C18", "seed:C18-r10-2", "J12"),  # reader narrower than its writers
    ("C06", "seed:C06-r10-2", "K22"),  # parent pointer taken for a representative
    ("C05", "seed:C05-r10-3", "K23"),  # random tree marking at queue time
    ("C11", "seed:C11-r10-3", "V16"),  # injectivity tested on keys
    ("C14", "seed:C14-r10-3", "W6"),   # pack filtered on the way into the store
    ("C19", "seed:C19-r10-1", "A13"),  # queueing depends on the database's current knowledge
    ("C12", "seed:C12-r10-1", "B20"),  # one side's walk stopped by the other side's nodes
    ("C05", "seed:C05-r10-1", "K15"),  # two-way edge not completed
    ("C15", "seed:C15-r10-2", "J7"),   # keyword given another parameter
    ("C14", "seed:C14-r11-1", "Y26"),  # fixpoint flag reset inside the round
    ("C04", "seed:C04-r11-3", "Y27"),  # None made into a value, then tested
    ("C08", "seed:C08-r11-2", "Y28"),  # keyword arguments dropped by a delegate
    ("C16", "seed:C16-r11-1", "Y29"),  # accumulator created inside the loop
    ("C15", "seed:C15-r11-1", "D5"),   # a flag property forwarding its neighbour
    ("C12", "seed:C12-r11-3", "M7"),   # the strategy's veto dropped from is_equivalence
    ("C04", "seed:C04-r11-1", "R10"),  # a second searcher admitted
    ("C11", "seed:C11-r11-2", "X8"),   # database made before its cache is filled
    ("C09", "seed:C09-r11-1", "V17"),  # ring sized from the counted child
    ("C20", "seed:C20-r11-1", "V18"),  # a label remembered on the class object
]


def run_all() -> int:
    from concurrent.futures import ProcessPoolExecutor

    jobs = []
    cats = {}
    for fx in FIXTURES:
        pid, vid = fx[0], fx[1]
        if pid not in cats:
            cats[pid] = {v["id"]: v for v in mutants.catalogue(pid)}
        cat = cats[pid]
        if vid not in cat:
            raise RuntimeError(f"fixture {vid} missing from the catalogue of {pid}")
        v = dict(cat[vid])
        if len(fx) > 2:
            v["rule"] = fx[2]
        jobs.append((pid, v))
    with ProcessPoolExecutor(max_workers=min(16, len(jobs))) as ex:
        results = list(ex.map(mutants._run_one, jobs))
    n = 0
    for (pid, v), (vid_, status, msg) in zip(jobs, results):
        if status == "fail":
            raise RuntimeError(f"fixture {v['id']}: {msg}")
        if status == "ok":
            n += 1
    return n
