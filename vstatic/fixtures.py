"""Positive fixtures for rules whose expected count on a healthy tree is zero (DESIGN.md
section 7): for each such rule one in-memory variant of /repo's *current* source that must
make the rule fire.  Run by `python -m vstatic selfcheck` (MANIFEST.setup_cmd) so that a
matcher that has silently rotted is noticed before any verdict is believed.  A fixture
whose anchor text is gone from the tree is skipped (the self-test of the thorough tier
reports that)."""
from . import mutants

# (property, variant id) pairs taken from the catalogues
FIXTURES = [
    ("C05", "C05-B-foreign-store-writer"),     # K5: nobody outside the databases mutates the stores
    ("C15", "C15-B-pop-storage"),              # T3: storage is append-only
    ("C16", "C16-B-ignore-discard"),           # Q2: the ignore set only grows
    ("C17", "C17-B-lambda-attr-queue"),        # R1: no unpicklable attribute
    ("C17", "C17-B-time-in-add-rule"),         # R3: no clock-dependent branch under a packet
    ("C18", "C18-B-F5-regress"),               # J4: no generic-alias instantiation
    ("C18", "C18-B-strategy-memo-dict"),       # J4: nothing writes __dict__ outside __init__
    ("C04", "C04-B-new-recording-site"),       # A3: no unsanctioned recording site
    ("C14", "C14-B-forget-overrides-contains"),  # W3: shared logic not overridden
]


def run_all() -> int:
    n = 0
    for pid, vid in FIXTURES:
        cat = {v["id"]: v for v in mutants.catalogue(pid)}
        if vid not in cat:
            raise RuntimeError(f"fixture {vid} missing from the catalogue of {pid}")
        vid_, status, msg = mutants._run_one((pid, cat[vid]))
        if status == "fail":
            raise RuntimeError(f"fixture {vid}: {msg}")
        if status == "ok":
            n += 1
    return n
