"""In-memory positive fixtures for rules whose expected count on a healthy tree is zero
(DESIGN.md section 7): each must match on every run so the matcher cannot rot."""
FIXTURES = []


def fixture(fn):
    FIXTURES.append(fn)
    return fn


def run_all() -> int:
    for fn in FIXTURES:
        fn()
    return len(FIXTURES)
