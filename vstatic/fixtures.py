"""Positive fixtures for rules whose expected count on a healthy tree is zero (DESIGN.md
section 7): for each such rule one in-memory variant of /repo's *current* source that must
make the rule fire.  Run by `python -m vstatic selfcheck` (MANIFEST.setup_cmd) so that a
matcher that has silently rotted is noticed before any verdict is believed.  A fixture
whose anchor text is gone from the tree is skipped (the self-test of the thorough tier
reports that)."""
from . import mutants

# (property, variant id) pairs taken from the catalogues
FIXTURES = [
    ("C05", "C05-B-foreign-store-writer"),     # K5: nobody outside the databases mutates the stores
    ("C15", "C15-B-pop-storage"),              # T3: storage is append-only
    ("C16", "C16-B-ignore-discard"),           # Q2: the ignore set only grows
    ("C17", "C17-B-lambda-attr-queue"),        # R1: no unpicklable attribute
    ("C17", "C17-B-time-in-add-rule"),         # R3: no clock-dependent branch under a packet
    ("C18", "C18-B-F5-regress"),               # J4: no generic-alias instantiation
    ("C18", "C18-B-strategy-memo-dict"),       # J4: nothing writes __dict__ outside __init__
    ("C04", "C04-B-new-recording-site"),       # A3: no unsanctioned recording site
    ("C14", "C14-B-forget-overrides-contains"),  # W3: shared logic not overridden
    ("C03", "C03-B-foreign-function-writer"),  # F11: only the two wrappers write the function
    ("C03", "C03-B-gap-cache-partial-invalidation"),  # F12: preimage_gap reads the histogram only
    ("C11", "C11-B-forest-key-memoised"),      # E10: nothing memoises a key computed from arguments
    ("C12", "C12-B-one-sided-pairing-memo"),   # B9: matcher state is keyed by pairs
    ("C13", "C13-B-actual-rule-scan-filtered-by-raw-start"),  # K4: no raw-vs-representative shortcut
    ("C09", "C09-B-quotient-mutates-parent-terms"),  # V11: provider results are not written to
    ("C17", "C17-B-working-is-a-set"),         # R6: no label is taken out of a set by position
    ("C17", "C17-B-max-time-truthiness"),      # R7: optional limits are compared with None
    ("C18", "C18-B-verification-rule-fixed-children"),  # J3b: re-application passes only the saved class
    ("C13", "C13-B-eq-path-skipped-for-ancestors"),     # B12: path checked on every visit
    ("C17", "C17-B-Y1-method-as-truth-value"),  # Y1: a method object is always true
    ("C17", "C17-B-Y5-class-level-set"),        # Y5: no class-level container written through instances
    ("C17", "C17-B-Y10-getstate-drops-staging"),  # Y10: pickle hooks carry the whole dictionary
    ("C17", "C17-B-Y4-mutable-default-kept"),   # Y4: no kept mutable default
    ("C17", "C17-B-Y6-memo-by-id"),             # Y6: no id()/hash() key
    ("C12", "C12-B-F13-regress"),               # B15: assumed matches are withdrawn
    ("C13", "C13-B-path-left-behind-on-failure"),  # B14: bookkeeping stacks are balanced
    ("C13", "C13-B-second-search-pinned-to-base"),  # D1: no call pinned to the base class
]


def run_all() -> int:
    from concurrent.futures import ProcessPoolExecutor

    jobs = []
    for pid, vid in FIXTURES:
        cat = {v["id"]: v for v in mutants.catalogue(pid)}
        if vid not in cat:
            raise RuntimeError(f"fixture {vid} missing from the catalogue of {pid}")
        jobs.append((pid, cat[vid]))
    with ProcessPoolExecutor(max_workers=min(16, len(jobs))) as ex:
        results = list(ex.map(mutants._run_one, jobs))
    n = 0
    for (pid, v), (vid_, status, msg) in zip(jobs, results):
        if status == "fail":
            raise RuntimeError(f"fixture {v['id']}: {msg}")
        if status == "ok":
            n += 1
    return n
