"""C18 -- JSON round trips preserve specifications, rules, packs, strategies, bijections.
Rules J1-J5 (engine J)."""
from ..engines import closure as G
from ..engines import jsonpairs as J


def run(ctx):
    # language-level slips in the modules the property is anchored in (engine Y)
    from ..engines import gotchas as GY
    GY.run(ctx, ('specification', 'strategies.rule', 'strategies.strategy', 'strategies.strategy_pack', 'isomorphism', 'combinatorial_class'))
    ctx.floor("Y", 1)
    ctx.extra["explanation"] = (
        "static analysis (ast, no execution) of every to_jsonable/from_dict pair of the package: the "
        "key table written (following super().to_jsonable()) equals the key table consumed (including "
        "the dispatcher's keys); every constructor parameter is rebuilt from the key its attribute was "
        "written under and through cls(...); classes whose equality compares __dict__ write that "
        "dictionary only in __init__ and are never instantiated through a subscripted generic alias; "
        "the bijection's nested maps are written and read with the same orientation. Decides agreement "
        "of the tables, not behavioural equality of reloaded objects."
    )
    ctx.assume("user classes outside the repository implement from_dict as cls(**d) or an equivalent of their own")
    J.j1_tables_agree(ctx)
    J.j2_j3_constructor_round_trip(ctx)
    J.j4_equality_purity(ctx)
    J.j5_bijection_maps(ctx)
    J.j6_all_rules_written(ctx)
    J.j7_positional_settings(ctx)
    from ..engines import closure as G10E
    G10E.g10_loader_takes_rules_as_written(ctx)
    ctx.floor("G10", 1)
    J.j8_container_normalisation(ctx)
    # the rules a specification adds to itself on demand are dumped with the rest
    G.g6_lazy_empty_rule(ctx)
    ctx.floor("G6", 3)
    ctx.floor("J8", 5)
    ctx.floor("J7", 1)
    ctx.floor("J6", 2)
    ctx.floor("J1", 14)
    ctx.floor("J2", 8)
    ctx.floor("J3", 9)
    ctx.floor("J4", 8)
    ctx.floor("J5", 6)
    from ..engines import dispatch as DP
    DP.d3_hash_implies_eq(ctx)
    ctx.floor("D3", 2)
    G.g8_labels_after_final_rules(ctx)
    ctx.floor("G8", 1)
    J.j9_class_ids_are_positions(ctx)
    ctx.floor("J9", 2)
    J.j10_class_array_is_a_list(ctx)
    ctx.floor("J10", 2)
    from ..engines import jsonpairs as JP
    JP.j11_pack_builders_carry_everything(ctx)
    ctx.floor("J11", 6)
    G.g9_ungroup_only_when_grouping(ctx)
    ctx.floor("G9", 1)
    # the rules a specification is made of after expand_verified are copies of the originals, form and all
    from ..engines import expandverified as XV
    XV.x2_copy_before_share(ctx)
    ctx.floor("X2", 3)
    J.j12_reader_admits_every_writer(ctx)
    ctx.floor("J12", 1)
