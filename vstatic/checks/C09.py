"""C09 -- every rule form counts its parent correctly from its children, with parameters.
Engine V (namespace / position discipline) only; the arithmetic of the recurrences is value-level."""
from ..engines import varkind as V


def run(ctx):
    # language-level slips in the modules the property is anchored in (engine Y)
    from ..engines import gotchas as GY
    GY.run(ctx, ('strategies.rule', 'strategies.constructor.cartesian', 'strategies.constructor.disjoint', 'strategies.constructor.base', 'utils'))
    ctx.floor("Y", 1)
    ctx.extra["explanation"] = (
        "static analysis (ast, no execution) of the statistic-name plumbing of the four constructors and "
        "of the constructors derived in rule.py: tables are paired with their own child, inverted into a "
        "fresh multi-valued child-keyed table, translated through the right position space with the "
        "target namespace's size, applied to the terms of the same child; path composition keys by the "
        "first class's names and looks up current names, inverting exactly the Complement steps. Decides "
        "namespace/position discipline, not the arithmetic (convolution, subtraction, division)."
    )
    ctx.assume("Strategy.extra_parameters returns, per child, a dictionary parent statistic -> child statistic")
    V.v1_children_map_builders(ctx)
    V.v2_parent_map_builders(ctx)
    V.v3_map_uses(ctx)
    V.v4_parameter_translation(ctx)
    V.v6_derived_constructors(ctx)
    V.v7_zeroes(ctx)
    V.v8_queries_do_not_mutate_constructor_state(ctx)
    V.v10_param_map(ctx)
    V.v11_provider_results_not_written(ctx)
    V.v13_dictionaries_kept_as_given(ctx)
    V.v15_map_kind_per_constructor(ctx)
    ctx.floor("V15", 4)
    ctx.floor("V13", 6)
    ctx.floor("V10", 3)
    # the recurrences themselves: provider, size, map and operation of each constructor
    from ..engines import recurrences as N
    N.n1_union(ctx)
    N.n2_product(ctx)
    N.n3_complement(ctx)
    N.n4_quotient(ctx)
    N.n5_count_lookup(ctx)
    for r, k in (("N1", 2), ("N2", 3), ("N3", 3), ("N4", 10), ("N5", 3)):
        ctx.floor(r, k)
    ctx.floor("V11", 2)
    # products count through utils.compositions: its enumeration must be complete and within bounds
    from ..engines import sizecheck as SC
    SC.s0_compositions(ctx)
    SC.s3_ensure_level(ctx)
    ctx.floor("S3", 4)
    ctx.floor("S0", 4)
    # the parameter maps are static methods bound by class name: an override nobody names never runs
    from ..engines import dispatch as DP
    DP.d2_static_overrides_are_named(ctx, ("Constructor",))
    ctx.floor("D2", 4)
    from ..engines import mapplumbing as M
    from ..engines import sampler as U
    M.m6_product_enumeration(ctx)
    U.u7_parameter_ranges(ctx)
    U.u8_absent_statistic_pinned(ctx)
    ctx.floor("U8", 2)
    ctx.floor("M6", 2)
    ctx.floor("U7", 3)
    ctx.floor("V8", 1)
    ctx.floor("V7", 2)
    ctx.floor("V1", 14)
    ctx.floor("V2", 4)
    ctx.floor("V3", 9)
    ctx.floor("V4", 4)
    ctx.floor("V6", 8)
    V.v17_quotient_bookkeeping(ctx)
    ctx.floor("V17", 2)
