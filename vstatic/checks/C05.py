"""C05 -- pruning-based detection and proof-tree search are exact.
Rules K1/K3 (root kind at every tree_searcher call), K4 (key normal form), K5 (cache
invalidation / writer set), K2 (extractor root at the default database's site)."""
from ..engines import labelkind as LK


def run(ctx):
    # language-level slips in the modules the property is anchored in (engine Y)
    from ..engines import gotchas as GY
    GY.run(ctx, ('tree_searcher', 'rule_db.base', 'equiv_db'))
    ctx.floor("Y", 1)
    ctx.extra["explanation"] = (
        "static analysis (ast, no execution): label-kind inference (raw label vs equivalence "
        "representative) at every call into tree_searcher and every membership test on the "
        "pruned dictionary; sorted normal form of every producer of a key up to equivalence; "
        "every mutation of the rule stores / equivalence edges resets the cached pruned "
        "dictionary and nothing outside the rule-database classes mutates them; the one-way adjacency table "
        "holds representatives only; depth-first generators thread the seen-set through siblings. Decides these "
        "necessary clauses, not that prune() computes the fixed point nor minimality."
    )
    K = LK.Kinds(ctx.P)
    LK.k1_tree_roots(ctx, K)
    LK.k4_key_normal_form(ctx, K)
    LK.k5_cache_invalidation(ctx)
    LK.k2_root_identity(ctx, K, modules=("rule_db.base", "rule_db.forget"), floor=1)
    LK.k2_spec_roots(ctx, K, modules=("comb_spec_searcher",))
    LK.k6_one_way_table(ctx, K)
    LK.k7_seen_threading(ctx)
    LK.k10_representative_freshness(ctx, K)
    LK.k10b_no_stale_representative(ctx, K)
    from ..engines import equivrules as Q
    Q.k16_connect_cycles(ctx)
    ctx.floor("K16", 3)
    LK.k20_smallest_bisection(ctx)
    ctx.floor("K20", 6)
    LK.k12_union_find_discipline(ctx)
    LK.k18_tree_searcher_purity(ctx)
    ctx.floor("K18", 6)
    ctx.floor("K12", 2)
    ctx.floor("K10", 4)
    ctx.floor("K1", 6)
    ctx.floor("K6", 2)
    ctx.floor("K7", 2)
    ctx.floor("K4", 8)
    ctx.floor("K5", 6)
    ctx.floor("K2", 4)
    # every single-child rule reaches the equivalence database as an edge (two-way: merged; one-way: recorded)
    from ..engines import storekeys as SK
    SK.w_insertion_discipline(ctx)
    ctx.floor("W2", 3)
    from ..engines import jsonpairs as JP
    JP.j11_pack_builders_carry_everything(ctx)
    ctx.floor("J11", 6)
    # a rule asks its strategy the same question it is asked (round 10)
    from ..engines import dispatch as DP5
    DP5.d5_rule_delegates_to_the_same_question(ctx)
    ctx.floor("D5", 4)
    # the equivalence database merges whatever it is told is equivalent, and records two-way edges completely (round 10)
    from ..engines import equivrules as QE10
    QE10.k14_merge(ctx)
    QE10.k15_edges(ctx)
    ctx.floor("K14", 4)
    ctx.floor("K15", 3)
    QK22 = __import__("vstatic.engines.equivrules", fromlist=["x"])
    QK22.k22_parent_pointers_are_not_representatives(ctx)
    ctx.floor("K22", 1)
    LK.k23_random_tree_marks_when_expanded(ctx)
    ctx.floor("K23", 2)
    # rules shared after round 11: the clause is necessary for this property as well
    from ..engines import closure as G5
    G5.g4_rules_from_labels(ctx)
    LK.k8_strategy_parent_pairing(ctx, modules=("specification_extrator", "rule_db.base"))
    ctx.floor("G4", 2)
    ctx.floor("K8", 3)
