"""C15 -- the class database is a stable bijection between classes and dense labels.
Rules T1-T4, T8-T11, A6 (engine T)."""
from ..engines import totality as T


def run(ctx):
    # language-level slips in the modules the property is anchored in (engine Y)
    from ..engines import gotchas as GY
    GY.run(ctx, ('class_db',))
    ctx.floor("Y", 1)
    ctx.extra["explanation"] = (
        "static analysis (ast, no execution) of class_db.py and of every caller of "
        "ClassDB.set_empty: lookups are total (range/handler discipline), storage is "
        "append-only with label = index, keys are compressed exactly once, the "
        "emptiness cache has only sanctioned writers. Decides these structural clauses, "
        "not the behaviour of user-defined __eq__/__hash__/to_bytes."
    )
    ctx.assume("CombinatorialClass.__eq__/__hash__/to_bytes/from_bytes of user classes are consistent")
    ctx.assume("symmetry strategies preserve emptiness (value passed by _symmetry_expand)")
    T.check_lookup_totality(ctx)
    T.check_append_only(ctx)
    T.check_compression(ctx)
    T.check_lookup_protocol(ctx)
    T.check_emptiness_cache(ctx)
    T.t12_class_or_label(ctx)
    T.t13_membership_of_total_mappings(ctx)
    ctx.floor("T1", 6)
    ctx.floor("T3", 8)
    ctx.floor("T4", 8)
    ctx.floor("A6", 3)
    T.t14_normalise_before_use(ctx, ("class_db",))
    ctx.floor("T14", 1)
    # settings reach the strategies / databases under the parameter they are meant for (round 10)
    from ..engines import jsonpairs as J7E
    J7E.j7_positional_settings(ctx)
    ctx.floor("J7", 1)
    # rules shared after round 11: the clause is necessary for this property as well
    from ..engines import provenance as PV15
    PV15.a7_pairing(ctx)
    ctx.floor("A7", 12)
    from ..engines import dispatch as DP15
    DP15.d5b_flag_properties_forward_their_own_flag(ctx)
    ctx.floor("D5", 3)
