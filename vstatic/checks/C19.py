"""C19 -- expanding verified classes preserves the enumeration and finishes the job.
Rules X1-X5."""
from ..engines import expandverified as X


def run(ctx):
    # language-level slips in the modules the property is anchored in (engine Y)
    from ..engines import gotchas as GY
    GY.run(ctx, ('strategies.rule', 'strategies.strategy', 'specification', 'rule_db.forest', 'comb_spec_searcher', 'strategies.strategy_pack'))
    ctx.floor("Y", 1)
    ctx.extra["explanation"] = (
        "static analysis (ast, no execution) of expand_verified / expand_comb_class and of the "
        "searcher's handling of verified labels: the only exit of expand_verified is the exhaustion "
        "of the expandable verified classes of the specification returned; every rule object of the "
        "original passes through copy (equivalence paths unpacked) before reaching the new database; "
        "the inner search and the new specification are rooted at the same class, seeded without the "
        "expanded class, from a fresh queue; verified labels are never stopped regardless of "
        "expand_verified; the original is not written to. Decides these clauses, not that the "
        "enumeration is preserved."
    )
    X.x1_exit_condition(ctx)
    X.x2_copy_before_share(ctx)
    X.x3_same_root_and_seed(ctx)
    X.x4_verified_stop_respects_flag(ctx)
    X.x5_original_untouched(ctx)
    # the retry with reverse rules relies on the forest extractor recovering every reverse form
    from ..engines import forestrules as E
    E.e3_key_function_agreement(ctx)
    ctx.floor("E3", 6)
    # the expansion replays the offered pack and re-keys copied rules under a new class database
    from ..engines import storekeys as SK
    SK.w4_pack_iteration(ctx)
    E.e10_memo_keyed_by_arguments(ctx)
    ctx.floor("W4", 1)
    # the rules of the specification being expanded are handed over as a cache: found there, not made again
    E.e12_cache_before_recompute(ctx)
    ctx.floor("E12", 1)
    X.x6_fallback_contract(ctx)
    # the expansion extracts through the forest extractor, which replays the offered pack
    from ..engines import provenance as PV
    PV.a5_application_discipline(ctx, rule_id="E4", only={"ForestRuleExtractor._rules_for_class"})
    ctx.floor("E4", 2)
    # the inner search records what the offered pack yields: the right rule under the right labels
    PV.a1_a2_expand_yield(ctx)
    ctx.floor("A1", 2)
    ctx.floor("X6", 2)
    ctx.floor("E10", 7)
    ctx.floor("X1", 4)
    ctx.floor("X2", 3)
    ctx.floor("X3", 6)
    ctx.floor("X4", 1)
    ctx.floor("X5", 2)
    # expand_comb_class takes a class or its label: brought to a class before the rules are sifted with it
    from ..engines import totality as TT
    TT.t14_normalise_before_use(ctx, ("specification",))
    ctx.floor("T14", 2)
    X.x7_pack_refusal_is_what_is_caught(ctx)
    ctx.floor("X7", 1)
    E.e13_reverse_switch_read_live(ctx)
    ctx.floor("E13", 2)
    from ..engines import sizecheck as SCC
    SCC.s0_compositions(ctx)
    ctx.floor("S0", 4)
    # the inner search files verification rules with their dependency children (round 10)
    from ..engines import sizecheck as SC19
    SC19.s4_forest_keys(ctx)
    ctx.floor("S4", 4)
    from ..engines import provenance as PV13
    PV13.a13_add_rule_bookkeeping(ctx)
    ctx.floor("A13", 3)
    from ..engines import expandverified as X19
    X19.x8_cache_filled_before_the_database_is_made(ctx)
    ctx.floor("X8", 1)
    # shared after round 11: the inner search of an expansion runs on the default queue (every class gets every expansion set),
    # folds its result into equivalence paths, and counts reverse products with the quotient recurrence
    from ..engines import queueproto as Q19
    from ..engines import closure as G19
    from ..engines import recurrences as N19
    Q19.q5_level_change(ctx)
    Q19.q6_expansion_order(ctx)
    Q19.q12_working_label_carried(ctx)
    G19.g7_equivalence_folding(ctx)
    N19.n4_quotient(ctx)
    ctx.floor("Q6", 3)
    ctx.floor("G7", 5)
    ctx.floor("N4", 9)
