"""C14 -- default and memory-saving rule databases are observationally identical.
T5 key shape, T6 protocol/accessor agreement, T7 raw-key normal form, T2 totality of the
ClassDB calls on the recomputation path, W1-W3 insertion discipline / shared logic."""
import ast

from ..core.program import AnalysisError, norm, walk_local
from ..engines import storekeys as S
from ..engines import totality as T


def run(ctx):
    # language-level slips in the modules the property is anchored in (engine Y)
    from ..engines import gotchas as GY
    GY.run(ctx, ('rule_db.base', 'rule_db.forget', 'rule_db.forest', 'rule_db.abstract', 'tree_searcher'))
    ctx.floor("Y", 1)
    ctx.extra["explanation"] = (
        "static analysis (ast, no execution) of rule_db/base.py, rule_db/forget.py and every "
        "user of the two rule stores: every store key is an (int, tuple); the memory-saving "
        "store provides the whole mapping protocol with one flattened normal form in every "
        "accessor; insertion and recomputation build the same sorted key from the rule's own "
        "classes and file two-way rules under the same predicate; the ClassDB calls made while "
        "recomputing are total; the databases override nothing of the shared logic. Decides these "
        "structural clauses, not which of several applicable strategies is recomputed."
    )
    S.t5_key_shape(ctx)
    S.t6_protocol(ctx)
    S.t7_raw_key_normal_form(ctx)
    S.w_insertion_discipline(ctx)
    S.w3_shared_logic(ctx)
    S.w4_pack_iteration(ctx)
    S.w5_replay_is_exhaustive(ctx)
    ctx.floor("W5", 4)
    ctx.floor("W4", 1)
    from ..engines import labelkind as LK
    LK.k8_strategy_parent_pairing(ctx, modules=("specification_extrator", "rule_db.base"))
    ctx.floor("K8", 3)
    # recomputation touches factory-made rules only under the handler that tells "does not apply"
    from ..engines import provenance as PV
    PV.a5_application_discipline(ctx, only={"RecomputingDict.__getitem__"})
    ctx.floor("A5", 2)
    # insertion keeps every non-empty child label, with multiplicity: recomputation compares against exactly that
    PV.a4_drop_guard(ctx)
    PV.a4b_clean_labels_call_site(ctx)
    ctx.floor("A4", 3)
    # ClassDB calls on the recomputation path must be total for never-labelled classes
    gi = ctx.P.need_method("RecomputingDict", "__getitem__", own=True)
    entry = set()
    for n in walk_local(gi.node):
        if isinstance(n, ast.Attribute) and isinstance(n.value, ast.Attribute) and n.value.attr == "classdb" \
                and norm(n.value.value) == "self":
            entry.add(n.attr)
    if not {"get_class", "get_label", "is_empty"} <= entry:
        raise AnalysisError(f"C14: RecomputingDict.__getitem__ no longer calls the expected ClassDB lookups (found {sorted(entry)})")
    closure = T.classdb_closure(ctx.P, entry)
    ctx.extra["recompute_classdb_closure"] = sorted(closure)
    T.check_lookup_totality(ctx, only=closure, floor=4)
    ctx.floor("T5", 12)
    ctx.floor("T6", 10)
    ctx.floor("T7", 5)
    ctx.floor("W1", 3)
    ctx.floor("W2", 4)
    ctx.floor("W3", 4)
    ctx.floor("T1", 4)
    from ..engines import statepickle as RR
    RR.r8_one_shot_iterables_not_kept(ctx)
    ctx.floor("R8", 1)
    from ..engines import jsonpairs as JP
    JP.j11_pack_builders_carry_everything(ctx)
    ctx.floor("J11", 6)
    S.t6b_flat_keys_are_elements(ctx)
    # both databases are handed the same (start, ends, rule) triples (round 10)
    PV.a3_recording_sites(ctx)
    ctx.floor("A3", 7)
    S.w6_linked_pack_is_the_searchers(ctx)
    ctx.floor("W6", 1)
