"""C16 -- the work queue schedules every class completely, once, in order, and
terminates.  Rules Q1-Q10 (engine Q)."""
from ..engines import queueproto as Q


def run(ctx):
    # language-level slips in the modules the property is anchored in (engine Y)
    from ..engines import gotchas as GY
    GY.run(ctx, ('class_queue', 'comb_spec_searcher', 'strategies.strategy_pack'))
    ctx.floor("Y", 1)
    ctx.extra["explanation"] = (
        "static analysis (ast, no execution) of DefaultQueue's control structure: the "
        "ignore test is made after a packet leaves staging, the ignore set only grows, "
        "once-only flags are set after the yield inside the same guard, work is staged "
        "lazily, exhaustion is signalled before any bookkeeping, expansion sets run in "
        "index order and a label leaving the last set is stopped. Decides these "
        "guard/pairing/ordering clauses on every path, not liveness."
    )
    ctx.assume("the searcher drives the queue only through add / set_* / __next__ / do_level")
    Q.q1_handout_check(ctx)
    Q.q2_ignore_monotone(ctx)
    Q.q3_stop_marks(ctx)
    Q.q4_once_only_flags(ctx)
    Q.q5_level_change(ctx)
    Q.q9_lazy_staging(ctx)
    Q.q6_expansion_order(ctx)
    Q.q7_do_level(ctx)
    Q.q8_add(ctx)
    Q.q11_distinct_containers(ctx)
    Q.q12_working_label_carried(ctx)
    ctx.floor("Q12", 1)
    ctx.floor("Q11", 1)
    for rule, n in (("Q1", 2), ("Q2", 2), ("Q3", 2), ("Q4", 6), ("Q5", 6), ("Q6", 3), ("Q7", 2), ("Q8", 1), ("Q9", 2), ("Q10", 2)):
        ctx.floor(rule, n)
    # the once-only marks and the stages belong to one queue: nothing mutable is shared through the class body
    from ..engines import statepickle as R
    R.r5b_no_class_level_state(ctx, list(ctx.P.subclasses(ctx.P.need_class("CSSQueue"), strict=False)))
    from ..engines import queueproto as QP
    QP.q13_staging_is_a_queue(ctx)
    ctx.floor("Q13", 1)
    # the packets the queue hands out are made from the pack's groups: a pack built from another keeps each group in its place
    from ..engines import jsonpairs as JP16
    JP16.j11_pack_builders_carry_everything(ctx)
    ctx.floor("J11", 6)
    from ..engines import provenance as PV13
    PV13.a13_add_rule_bookkeeping(ctx)
    ctx.floor("A13", 3)
    # rules shared after round 11: the clause is necessary for this property as well
    from ..engines import statepickle as R16
    from ..engines import expandverified as X16
    R16.r3_interruption_points(ctx)
    X16.x4_verified_stop_respects_flag(ctx)
    ctx.floor("R3", 1)
    ctx.floor("X4", 1)
    from ..engines import dispatch as DP16
    DP16.d5b_flag_properties_forward_their_own_flag(ctx)
    ctx.floor("D5", 3)
