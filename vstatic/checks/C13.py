"""C13 -- the parallel finder is total and returns a matched pair.
K2 (root identity between extractor and specification) and K1 (labels handed to
representative-keyed structures) in bijection.py."""
from ..engines import labelkind as LK


def run(ctx):
    # language-level slips in the modules the property is anchored in (engine Y)
    from ..engines import gotchas as GY
    GY.run(ctx, ('bijection', 'specification_extrator', 'isomorphism', 'comb_spec_searcher', 'strategies.rule'))
    ctx.floor("Y", 1)
    ctx.extra["explanation"] = (
        "static analysis (ast, no execution): label-kind inference (raw start label vs "
        "equivalence representative) at the specification-building site of the parallel finder "
        "and at every label the finders hand to representative-keyed structures. Decides the "
        "necessary clause behind 'does not fail when the start class is equivalent to other "
        "classes'; not validity or isomorphism of the outputs."
    )
    from ..engines import bijplumb as B17E
    B17E.b17_representatives_read_after_expansion(ctx)
    ctx.floor("B17", 1)
    K = LK.Kinds(ctx.P)
    LK.k2_root_identity(ctx, K, modules=("bijection",), floor=1)
    LK.k2_spec_roots(ctx, K, modules=("bijection",))
    LK.k1_finder_labels(ctx, K)
    LK.k8_strategy_parent_pairing(ctx, modules=("bijection", "specification_extrator"))
    LK.k9_index_order(ctx)
    LK.k11_extractor_start(ctx, K)
    LK.k4_key_normal_form(ctx, K)
    from ..engines import equivrules as Q
    Q.k17_find_path(ctx)
    ctx.floor("K4", 9)
    ctx.floor("K17", 3)
    from ..engines import bijplumb as B
    B.b1_permutation_convention(ctx, only_sibling=True)
    B.b4_matching_complete(ctx, classes=(("ParallelSpecFinder", "_find"), ("Isomorphism", "_are_isomorphic")))
    B.b8_two_sided_acceptance(ctx)
    # "isomorphic to each other" is judged by the matcher: it must read specifications the way they are built
    B.b7_equivalence_steps(ctx)
    B.b19_equiv_is_guarded_by_the_kind(ctx)
    ctx.floor("B19", 4)
    B.b18_first_complete_matching_ends_the_backtracking(ctx)
    ctx.floor("B18", 1)
    # the specifications the finder builds go through the extractor: every class on a right-hand side gets a rule
    from ..engines import closure as G3E
    G3E.g3_equivalence_paths(ctx)
    ctx.floor("G3", 2)
    ctx.floor("B7", 6)
    B.b10_expansion_until_spec(ctx)
    B.b11_paths_same_length(ctx)
    B.b12_path_checked_on_every_visit(ctx)
    ctx.floor("B10", 1)
    ctx.floor("B11", 1)
    ctx.floor("B12", 1)
    ctx.floor("B1", 1)
    ctx.floor("B4", 6)
    ctx.floor("B8", 2)
    ctx.floor("K11", 1)
    ctx.floor("K8", 4)
    ctx.floor("K9", 2)
    ctx.floor("K2", 3)
    ctx.floor("K1", 11)
    # what the derived forms override must be what runs: no copy of an overridden delegate, no call pinned to the base class
    from ..engines import dispatch as DP
    DP.d1_no_bypass_of_overridden_delegates(ctx, ("ParallelSpecFinder",))
    ctx.floor("D1", 1)
    # the extractors look strategies up under (label, tuple of labels) keys
    from ..engines import storekeys as SK
    SK.t5_key_shape(ctx)
    ctx.floor("T5", 12)
    B.b14_stacks_balanced(ctx, only_classes=("EqPathParallelSpecFinder", "ParallelSpecFinder"))
    ctx.floor("B14", 4)
    B.b16_path_steps_filtered_by_equivalence(ctx)
    ctx.floor("B16", 1)
    from ..engines import closure as GC
    GC.g8_labels_after_final_rules(ctx)
    ctx.floor("G8", 1)
    from ..engines import sizecheck as SCC
    SCC.s0_compositions(ctx)
    ctx.floor("S0", 4)
    # the finder's specifications are built by the extractor over the searcher's equivalence database (round 10)
    from ..engines import closure as G13
    from ..engines import equivrules as Q13E
    G13.g2_no_lhs_labels(ctx)
    Q13E.k15_edges(ctx)
    ctx.floor("G2", 2)
    ctx.floor("K15", 3)
    B.b20_each_side_walks_its_own_chain(ctx)
    from ..engines import mapplumbing as M13
    M13.m3_path_rule(ctx)
    ctx.floor("B20", 2)
    ctx.floor("M3", 3)
