"""C20 -- equations and generating functions agree with the true enumeration.
Engine V on substitution tables + fallback discipline; not the algebraic form nor genf selection."""
from ..engines import varkind as V


def run(ctx):
    # language-level slips in the modules the property is anchored in (engine Y)
    from ..engines import gotchas as GY
    GY.run(ctx, ('specification', 'strategies.rule', 'strategies.constructor.cartesian', 'strategies.constructor.disjoint', 'strategies.strategy', 'utils'))
    ctx.floor("Y", 1)
    ctx.extra["explanation"] = (
        "static analysis (ast, no execution) of every get_equation: each child's function is paired with "
        "that child's own table, the substitution sends the child's variable to the (product of the) parent "
        "variable(s) and is simultaneous; constructors that cannot express parameters refuse; a reverse rule "
        "falls back only to the original rule's equation; path constructors invert exactly the Complement "
        "steps; no class is silently omitted. Decides these clauses, not the algebraic form of the "
        "equations nor the selection of a closed form."
    )
    V.v5_equations(ctx)
    V.v6_derived_constructors(ctx)
    V.v5b_univariate_genf_refuses_statistics(ctx)
    from ..engines import sizecheck as SC
    SC.v9_equation_forms(ctx, 3 if ctx.tier == "quick" else 5)
    ctx.floor("V9", 10)
    ctx.floor("V5", 13)
    ctx.floor("V6", 8)
    from ..engines import dispatch as DP
    DP.d2_static_overrides_are_named(ctx, ("Constructor",))
    ctx.floor("D2", 4)
    V.v12_initial_conditions_bound(ctx)
    V.v14_expansion_decides(ctx)
    ctx.floor("V14", 1)
    from ..engines import closure as G11E
    G11E.g11_one_place_hands_out_labels(ctx)
    ctx.floor("G11", 1)
    ctx.floor("V12", 2)
    from ..engines import sizecheck as SCC
    SCC.s0_compositions(ctx)
    ctx.floor("S0", 4)
    # settings reach the strategies / databases under the parameter they are meant for (round 10)
    from ..engines import jsonpairs as J7E
    J7E.j7_positional_settings(ctx)
    ctx.floor("J7", 1)
    V.v18_class_objects_keep_nothing(ctx)
    V.v17_quotient_bookkeeping(ctx)
    ctx.floor("V18", 1)
    ctx.floor("V17", 2)
    from ..engines import mapplumbing as M2B
    M2B.m2b_reverse_rule_children(ctx)
    ctx.floor("M2", 2)
