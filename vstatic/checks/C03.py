"""C03 -- forest productivity detection equals the least fixed point, in any insert order.
Rules F1-F11: index maintenance of the incremental table method (structural clauses only)."""
from ..engines import tablemethod as F


def run(ctx):
    # language-level slips in the modules the property is anchored in (engine Y)
    from ..engines import gotchas as GY
    GY.run(ctx, ('rule_db.forest', 'typing'))
    ctx.floor("Y", 1)
    ctx.extra["explanation"] = (
        "static analysis (ast, no execution) of TableMethod and Function in rule_db/forest.py: the "
        "tables kept next to the function f (shifts = child value + shift - parent value, the "
        "rules pumping / using a class, the value histogram) are defined in terms of f and the "
        "inserted rules; for every writer of f the matching correction of each table is present "
        "with the right sign, index and guard; every inserted key is recorded, registered and "
        "queued; a rule fires only when every shift is positive or infinite; values above the gap "
        "are held back, released when the gap moves up, and declared infinite only after the queue "
        "is drained; the readers ask `f(label) is None`. Decides these maintenance clauses, not the "
        "gap argument itself (that the frozen values are exactly the pumping classes) nor "
        "preimage_gap's search."
    )
    ctx.assume("ForestRuleKey.key is (parent, children) and .shifts the rule's own shifts (decided under C10/C11: S4, E3)")
    F.f1_recording(ctx)
    F.f2_initial_shifts(ctx)
    F.f3_gap_size(ctx)
    F.f4_registration(ctx)
    F.f5_firing_test(ctx)
    F.f6_increase_corrections(ctx)
    F.f7_infinite_corrections(ctx)
    F.f8_gap(ctx)
    F.f9_process_queue(ctx)
    F.f10_function_counts(ctx)
    F.f11_readers(ctx)
    F.f12_gap_search(ctx)
    F.f13_database_insertion(ctx)
    ctx.floor("F12", 5)
    ctx.floor("F13", 2)
    ctx.floor("F1", 7)
    ctx.floor("F2", 4)
    ctx.floor("F3", 3)
    ctx.floor("F4", 5)
    ctx.floor("F5", 3)
    ctx.floor("F6", 7)
    ctx.floor("F7", 6)
    ctx.floor("F8", 4)
    ctx.floor("F9", 4)
    ctx.floor("F10", 9)
    ctx.floor("F11", 6)
    from ..engines import forestrules as FE
    FE.e13_reverse_switch_read_live(ctx)
    ctx.floor("E13", 2)
    # the keys the table method is given: the shifts of a reverse rule are, position by position, those of its own children,
    # and every empty child of a possibly-empty rule gets its empty rule (round 10)
    from ..engines import sizecheck as SC3
    SC3.s4_forest_keys(ctx)
    for fam in SC3.strategy_families(ctx.P):
        st3 = SC3.run_family(ctx, fam, 3, 2)
        SC3.run_derived(ctx, fam, 3, st3)
    ctx.floor("S4", 8)
    from ..engines import provenance as PV3
    PV3.a12_guard_reads_the_parameter(ctx)
    ctx.floor("A12", 1)
    # rules shared after round 11: the clause is necessary for this property as well
    from ..engines import totality as T3
    T3.check_set_empty_writers(ctx)
    ctx.floor("A6", 3)
