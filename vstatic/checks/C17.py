"""C17 -- a search pickled or interrupted at any point resumes faithfully.
Rules R1-R5 (engine R)."""
from ..engines import statepickle as R


def run(ctx):
    # language-level slips in the modules the property is anchored in (engine Y)
    from ..engines import gotchas as GY
    GY.run(ctx, tuple(m.short for m in ctx.P.modules.values()))   # the searcher's state spans the whole package
    ctx.floor("Y", 1)
    ctx.extra["explanation"] = (
        "static analysis (ast, no execution): the closure of classes reachable from the searcher's "
        "attributes holds no unpicklable attribute value and no custom pickling hooks, every class of "
        "the closure compares by value, the clock never decides a branch in any function reachable "
        "while a work packet is processed (name-based over-approximating call graph), the time limit "
        "interrupts only between packets, and progress lives only in instance attributes that grow. "
        "Decides these clauses; not that the continuation visits the same work in the same order."
    )
    ctx.assume("user classes (combinatorial classes, strategies) are picklable and compare by value")
    closure = R.state_closure(ctx.P)
    R.r1_picklable_closure(ctx, closure)
    R.r2_value_equality(ctx, closure)
    R.r9_back_references_left_out_by_name(ctx)
    ctx.floor("R9", 1)
    R.r3_interruption_points(ctx)
    R.r5_no_global_state(ctx)
    R.r5b_no_class_level_state(ctx, closure)
    # state rewritten in place by a specification check (which runs between packets, i.e. at
    # every possible interruption point) must be loss-free
    from ..engines import labelkind as LK
    LK.k6_one_way_table(ctx, LK.Kinds(ctx.P))
    # derived caches: invalidated by every mutation, never corrupted by a query
    LK.k5_cache_invalidation(ctx)
    LK.k18_tree_searcher_purity(ctx)
    R.r6_queue_order_survives(ctx)
    R.r7_optional_numbers_tested_for_none(ctx, (("CombinatorialSpecificationSearcher", "_auto_search_rules", ("max_expansion_time",)),))
    # comparing a restored searcher with the original reads every stored rule back; the memory-saving
    # flavour does so by replaying the pack
    from ..engines import provenance as PV
    PV.a5_application_discipline(ctx, only={"RecomputingDict.__getitem__"})
    ctx.floor("A5", 2)
    ctx.floor("R6", 1)
    ctx.floor("R7", 1)
    # a specification check between two packets must not leave entries behind for classes without rules
    LK.k4_key_normal_form(ctx, LK.Kinds(ctx.P))
    ctx.floor("K4", 9)
    # packs (held by the queue, compared by content) hold strategies and factories: value hash goes with value equality
    from ..engines import dispatch as DP
    DP.d3_hash_implies_eq(ctx)
    ctx.floor("D3", 2)
    ctx.floor("K5", 6)
    ctx.floor("K18", 6)
    ctx.floor("K6", 2)
    ctx.floor("R1", 13)
    ctx.floor("R2", 13)
    ctx.floor("R3", 4)
    ctx.floor("R5", 3)
    from ..engines import statepickle as RR
    RR.r8_one_shot_iterables_not_kept(ctx)
    ctx.floor("R8", 1)
    # classes on a cycle of one-way rules are one class: found whenever the search is asked, whatever happened in between
    from ..engines import equivrules as QE
    QE.k16_connect_cycles(ctx)
    ctx.floor("K16", 3)
    R.r10_one_searcher_per_database(ctx)
    ctx.floor("R10", 1)
