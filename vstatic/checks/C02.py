"""C02 -- returned specifications are closed, one-rule-per-class, genuine and productive.
Rules G1-G7 (closure of what the extractors and the specification build) plus the rules of
other engines that decide its structural hazards (root identity, keys up to equivalence,
strategy/parent pairing, forest extraction)."""
from ..engines import closure as G
from ..engines import labelkind as LK


def run(ctx):
    # language-level slips in the modules the property is anchored in (engine Y)
    from ..engines import gotchas as GY
    GY.run(ctx, ('equiv_db', 'specification', 'specification_extrator', 'rule_db.base', 'rule_db.forest', 'tree_searcher', 'strategies.rule'))
    ctx.floor("Y", 1)
    ctx.extra["explanation"] = (
        "static analysis (ast, no execution) of specification_extrator.py and specification.py: every node "
        "of the proof tree records its actual rule; every right-hand label without a left-hand side (and "
        "the root) gets an equivalence path from itself to the actual parent standing for its "
        "representative, recorded step by step; every (parent, children) pair becomes a rule or an error; "
        "the specification keys rules by their own class, wires every rule to get_rule, makes up an empty "
        "rule only for a class without a rule that is empty, and folds equivalence chains without hiding a "
        "class of a real rule; stored strategies are re-applied to the class of their own key; the extractor "
        "is told the raw root. Decides closure plumbing, not productivity (C03/C05/C11) nor that re-applied "
        "strategies return the same children (C14)."
    )
    ctx.assume("strategies are deterministic: re-applying a stored strategy to the same class gives the same rule")
    G.g1_decompositions(ctx)
    G.g2_no_lhs_labels(ctx)
    G.g3_equivalence_paths(ctx)
    G.g4_rules_from_labels(ctx)
    G.g5_specification_dict(ctx)
    G.g6_lazy_empty_rule(ctx)
    G.g7_equivalence_folding(ctx)
    K = LK.Kinds(ctx.P)
    LK.k2_root_identity(ctx, K, modules=("rule_db.base", "rule_db.forget", "bijection"), floor=1)
    LK.k4_key_normal_form(ctx, K)
    LK.k8_strategy_parent_pairing(ctx, modules=("specification_extrator", "rule_db.base", "bijection"))
    LK.k11_extractor_start(ctx, K)
    from ..engines import equivrules as Q
    Q.k16_connect_cycles(ctx)
    Q.k17_find_path(ctx)
    LK.k6_one_way_table(ctx, K)
    from ..engines import forestrules as E
    E.e5_find_rule_exact(ctx)
    E.e7_minimise_bookkeeping(ctx)
    # productivity is judged from (parent, children, shifts): the shifts a rule declares must be the ones
    # its constructor honours (engine S, quick parameters), and what is recorded must be the rule's own triple
    from ..engines import sizecheck as SC
    for fam in SC.strategy_families(ctx.P):
        st = SC.run_family(ctx, fam, 3, 2)
        SC.run_derived(ctx, fam, 3, st)
    SC.s4_forest_keys(ctx)
    from ..engines import provenance as PV
    PV.a1_a2_expand_yield(ctx)
    PV.a3_recording_sites(ctx)
    PV.a5_application_discipline(ctx)
    ctx.floor("A5", 6)
    ctx.floor("S1", 20)
    ctx.floor("S4", 8)
    ctx.floor("A3", 7)
    ctx.floor("G1", 3)
    ctx.floor("G2", 2)
    ctx.floor("G3", 2)
    ctx.floor("G4", 4)
    ctx.floor("G5", 5)
    ctx.floor("G6", 3)
    ctx.floor("G7", 8)
    ctx.floor("K2", 3)
    ctx.floor("K4", 8)
    ctx.floor("K8", 4)
    ctx.floor("K16", 3)
    ctx.floor("K17", 3)
    ctx.floor("K6", 2)
    ctx.floor("E5", 4)
    ctx.floor("E7", 3)
    # an equivalence walked backwards is the reversal of the original rule at the kept child's own position
    from ..engines import varkind as VK
    VK.v6b_kept_child_position(ctx)
    ctx.floor("V6", 2)
    # with the forest database the productive set is what the table method says it is
    from ..engines import tablemethod as FT
    for fn in (FT.f1_recording, FT.f2_initial_shifts, FT.f3_gap_size, FT.f4_registration, FT.f5_firing_test, FT.f6_increase_corrections,
               FT.f7_infinite_corrections, FT.f8_gap, FT.f9_process_queue, FT.f11_readers):
        fn(ctx)
    ctx.floor("F3", 3)
    ctx.floor("F5", 3)
    # what has_specification answered from (the cached pruned dictionary) is still there when the specification is extracted
    LK.k18_tree_searcher_purity(ctx)
    ctx.floor("K18", 3)
    G.g9_ungroup_only_when_grouping(ctx)
    ctx.floor("G9", 1)
    from ..engines import storekeys as SKK
    SKK.w_insertion_discipline(ctx)
    ctx.floor("W1", 3)
    # (class, label) pairs that belong together on the way into the databases (round 10)
    PV.a7_pairing(ctx)
    ctx.floor("A7", 12)
    # a rule asks its strategy the same question it is asked (round 10)
    from ..engines import dispatch as DP5
    DP5.d5_rule_delegates_to_the_same_question(ctx)
    ctx.floor("D5", 4)
    # the equivalence database merges whatever it is told is equivalent, and records two-way edges completely (round 10)
    from ..engines import equivrules as QE10
    QE10.k14_merge(ctx)
    QE10.k15_edges(ctx)
    ctx.floor("K14", 4)
    ctx.floor("K15", 3)
    LK.k2_spec_roots(ctx, K, modules=("bijection",))
    SKK.w4_pack_iteration(ctx)
    ctx.floor("W4", 1)
