"""C07 -- object generation yields exactly the objects of the class, each once.
Rules M1-M5 (round-trip plumbing of derived forms and wiring of generation only)."""
from ..engines import mapplumbing as M


def run(ctx):
    # language-level slips in the modules the property is anchored in (engine Y)
    from ..engines import gotchas as GY
    GY.run(ctx, ('strategies.rule', 'strategies.constructor.cartesian', 'strategies.constructor.disjoint', 'specification', 'utils'))
    ctx.floor("Y", 1)
    ctx.extra["explanation"] = (
        "static analysis (ast, no execution): the forward and backward maps of the derived rule "
        "forms use the same slot / the reversed fold order, so they are mutually inverse whenever the "
        "original rule's maps are; a level of objects is the backward image of the product of the "
        "sub-object lists, appended to the cache only once complete; providers are aligned with "
        "children. Decides this plumbing only -- not that the generated sets equal the class."
    )
    ctx.assume("the maps of the underlying strategies are mutually inverse bijections")
    M.m1_equivalence_rule(ctx)
    M.m2_reverse_rule(ctx)
    M.m3_path_rule(ctx)
    M.m4_generation_wiring(ctx)
    M.m5_union_sub_objects(ctx)
    M.m4b_verification_levels(ctx)
    M.m6_product_enumeration(ctx)
    # generation and counting of a union take the same entries of each child
    from ..engines import recurrences as N
    N.n1_union(ctx)
    ctx.floor("N1", 2)
    ctx.floor("M6", 2)
    from ..engines import sizecheck as SC
    SC.s0_compositions(ctx)
    ctx.floor("S0", 4)
    # the parameter maps that key the generated objects
    from ..engines import varkind as V
    V.v1_children_map_builders(ctx)
    V.v6_derived_constructors(ctx)
    V.v10_param_map(ctx)
    ctx.floor("V10", 3)
    ctx.floor("V6", 8)
    ctx.floor("V1", 14)
    ctx.floor("M1", 4)
    ctx.floor("M2", 5)
    ctx.floor("M3", 3)
    ctx.floor("M4", 10)
    ctx.floor("M5", 3)
    # what the derived forms override must be what runs: no copy of an overridden delegate, no call pinned to the base class
    from ..engines import dispatch as DP
    DP.d1_no_bypass_of_overridden_delegates(ctx, ("AbstractRule",))
    ctx.floor("D1", 1)
    from ..engines import closure as GC
    GC.g9_ungroup_only_when_grouping(ctx)
    ctx.floor("G9", 1)
    # rules shared after round 11: the clause is necessary for this property as well
    from ..engines import varkind as V7E
    V7E.v3_map_uses(ctx)
    V7E.v10_param_map(ctx)
    ctx.floor("V3", 9)
    ctx.floor("V10", 3)
    from ..engines import mapplumbing as M2B
    M2B.m2b_reverse_rule_children(ctx)
    ctx.floor("M2", 2)
