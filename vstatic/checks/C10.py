"""C10 -- declared shifts bound what a rule actually reads when counting.
Engine S (affine size-flow bounds over concrete arities) + S3/S4 structural rules."""
from ..engines import sizecheck as SC


def run(ctx):
    # language-level slips in the modules the property is anchored in (engine Y)
    from ..engines import gotchas as GY
    GY.run(ctx, ('strategies.rule', 'strategies.strategy', 'strategies.constructor.cartesian', 'strategies.constructor.disjoint', 'rule_db.forest'))
    ctx.floor("Y", 1)
    K = 3 if ctx.tier == "quick" else 6
    alias_k = 3 if ctx.tier == "quick" else 5
    ctx.extra["explanation"] = (
        "static analysis by abstract interpretation of the ast (nothing is executed): for every strategy "
        "family of the package, every rule arity k <= K, every flipped index and every aliasing pattern of "
        "the children (k <= alias_k), the strategy's shifts, the constructors' __init__/get_terms and "
        "ReverseRule's children/shifts are evaluated on opaque classes with symbolic minimum sizes m_i; each "
        "provider call is bounded by an affine form and compared with n minus the declared shift of that "
        "position (syntactic non-negativity certificate). Decides the property for the package's own "
        "constructors up to arity K."
    )
    ctx.extra["K"] = K
    ctx.extra["alias_k"] = alias_k
    ctx.assume("minimum_size_of_object() returns a non-negative integer and is a function of the class")
    ctx.assume("no statistic is named 'n' (documented reservation)")
    ctx.assume("user-defined constructors outside the package are not covered; arities above K are not covered")
    from ..core.program import AnalysisError
    # the syntactic rules first: what they report stands even if the interpreter cannot follow the code
    SC.s4_forest_keys(ctx)
    fams = SC.strategy_families(ctx.P)
    tot = {"shapes": 0, "obligations": 0, "records": 0}
    for fam in fams:
        try:
            st = SC.run_family(ctx, fam, K, alias_k)
            SC.run_derived(ctx, fam, min(K, 4), st)
        except AnalysisError as e:
            if not ctx.violations:
                raise
            ctx.shortfalls.append(f"engine S could not evaluate {fam.name}: {e}")
            continue
        for k2 in tot:
            tot[k2] += st[k2]
    ctx.extra["families"] = [f.name for f in fams]
    ctx.extra["shapes"] = tot["shapes"]
    ctx.extra["provider_calls"] = tot["records"]
    SC.s0_compositions(ctx)
    SC.s3_ensure_level(ctx)
    from ..engines import mapplumbing as M
    M.m4b_verification_levels(ctx)
    # shifts and keys are functions of (class, children): nothing memoises them under less
    from ..engines import forestrules as E
    E.e10_memo_keyed_by_arguments(ctx)
    ctx.floor("E10", 7)
    from ..engines import varkind as V
    V.v11_provider_results_not_written(ctx)
    ctx.floor("V11", 2)
    ctx.floor("S0", 4)
    ctx.floor("S1", 20)
    ctx.floor("S2", 3)
    ctx.floor("S3", 4)
    ctx.floor("S4", 8)
    from ..engines import forestrules as FE
    FE.e13_reverse_switch_read_live(ctx)
    ctx.floor("E13", 2)
    # 'whatever the fixed-point analysis accepts as productive can be evaluated': the analysis itself keeps its books
    # (shift corrections, gap, held-back rules) after every change of a value
    from ..engines import tablemethod as FT
    for fn in (FT.f2_initial_shifts, FT.f3_gap_size, FT.f5_firing_test, FT.f6_increase_corrections, FT.f7_infinite_corrections, FT.f8_gap):
        fn(ctx)
    ctx.floor("F6", 4)
    ctx.floor("F7", 3)
    ctx.floor("F5", 3)
    # a rule asks its strategy the same question it is asked (round 10)
    from ..engines import dispatch as DP5
    DP5.d5_rule_delegates_to_the_same_question(ctx)
    ctx.floor("D5", 4)
    # rules shared after round 11: the clause is necessary for this property as well
    FE.e12_cache_before_recompute(ctx)
    ctx.floor("E12", 1)
    from ..engines import mapplumbing as M2B
    M2B.m2b_reverse_rule_children(ctx)
    ctx.floor("M2", 2)
