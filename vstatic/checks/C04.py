"""C04 -- the rule universe built by the searcher is faithful to the strategies.
Rules A1-A7 (engine P) and A6 (engine T)."""
from ..engines import provenance as PV
from ..engines import totality as T


def run(ctx):
    # language-level slips in the modules the property is anchored in (engine Y)
    from ..engines import gotchas as GY
    GY.run(ctx, ('strategies.rule', 'strategies.strategy', 'comb_spec_searcher', 'class_db', 'rule_db.base', 'rule_db.forest'))
    ctx.floor("Y", 1)
    ctx.extra["explanation"] = (
        "static analysis (ast, no execution): provenance of every (start, ends, rule) triple that "
        "reaches a rule database (guarded start label, order-preserving unfiltered child labels, "
        "sanctioned recording sites), the drop guard of _clean_labels, strategy applications and first "
        "touches of factory-made rules under StrategyDoesNotApply handlers, (class, label) argument "
        "pairs that belong together, and the sanctioned writers of the emptiness cache. Decides these "
        "clauses on every path; not whether strategies honour their contracts."
    )
    ctx.assume("strategies honour possibly_empty and raise StrategyDoesNotApply / return None when they do not apply")
    PV.a1_a2_expand_yield(ctx)
    PV.a3_recording_sites(ctx)
    PV.a4_drop_guard(ctx)
    PV.a4b_clean_labels_call_site(ctx)
    PV.a5_application_discipline(ctx)
    PV.a7_pairing(ctx)
    PV.a7_zip_alignment(ctx)
    PV.a8_memo_key_coherence(ctx)
    PV.a9_factory_output_as_is(ctx)
    PV.a10_call_computes_children(ctx)
    PV.a12_guard_reads_the_parameter(ctx)
    ctx.floor("A9", 1)
    ctx.floor("A10", 2)
    ctx.floor("A12", 1)
    # labels that are looked up / marked empty resolve to the class they were given for
    T.check_lookup_totality(ctx)
    ctx.floor("T1", 6)
    ctx.floor("A8", 1)
    T.check_set_empty_writers(ctx)
    # 'equal classes always receive the same label, unequal classes different ones'
    T.check_append_only(ctx)
    T.check_compression(ctx)
    ctx.floor("T3", 8)
    ctx.floor("T4", 8)
    ctx.floor("A1", 1)
    ctx.floor("A2", 1)
    ctx.floor("A3", 7)
    ctx.floor("A4", 3)
    ctx.floor("A5", 6)
    ctx.floor("A7", 12)
    ctx.floor("A6", 3)
    # values handed to the databases arrive under the parameter they are meant for
    from ..engines import jsonpairs as J
    J.j7_positional_settings(ctx)
    ctx.floor("J7", 1)
    # the shifts recorded with a rule are position by position those of its own children (engine S, quick parameters)
    from ..engines import sizecheck as SC
    SC.s4_forest_keys(ctx)
    for fam in SC.strategy_families(ctx.P):
        st = SC.run_family(ctx, fam, 3, 2)
        SC.run_derived(ctx, fam, 3, st)
    ctx.floor("S4", 8)
    from ..engines import dispatch as DP4
    DP4.d5b_flag_properties_forward_their_own_flag(ctx)
    ctx.floor("D5", 3)
    from ..engines import statepickle as R4
    R4.r10_one_searcher_per_database(ctx)
    ctx.floor("R10", 1)
