"""C12 -- a constructed bijection is a size-preserving bijection with a true inverse.
Rules B1-B7: plumbing of the matcher and the parse-tree transport (structural clauses only)."""
from ..engines import bijplumb as B
from ..engines import jsonpairs as J


def run(ctx):
    # language-level slips in the modules the property is anchored in (engine Y)
    from ..engines import gotchas as GY
    GY.run(ctx, ('isomorphism', 'specification', 'strategies.rule'))
    ctx.floor("Y", 1)
    ctx.extra["explanation"] = (
        "static analysis (ast, no execution) of isomorphism.py: the matcher's permutation convention "
        "(which specification's child position is the subscript and which the entry) agrees with the "
        "transport that reads it, and with the key orientation (first node, second node); the inverse "
        "order map is the inverse permutation under the swapped key and map / inverse_map hand over "
        "all-forward or all-inverse data; both sides skip exactly the empty children; the backtracking "
        "offers every unused position once and stores a permutation only when complete; ancestors and "
        "the path tracker are released on every exit; base cases (arity, leaves, constructors, "
        "recursion) and the one-sided equivalence steps are wired symmetrically. Decides this plumbing, "
        "not that the transported object is the right one (that needs the strategies' own maps)."
    )
    ctx.assume("strategies' forward / backward maps are mutually inverse and constructor.equiv is an equivalence (user code)")
    B.b1_permutation_convention(ctx, include_sibling=False)
    B.b2_inverse_data(ctx)
    B.b3_nonempty_alignment(ctx)
    B.b4_matching_complete(ctx)
    B.b5_bookkeeping(ctx)
    B.b6_base_cases(ctx)
    B.b7_equivalence_steps(ctx)
    B.b20_each_side_walks_its_own_chain(ctx)
    ctx.floor("B20", 2)
    B.b19_equiv_is_guarded_by_the_kind(ctx)
    ctx.floor("B19", 4)
    B.b7b_min_object_of_the_rule_class(ctx)
    # the map calls indexed_forward_map / indexed_backward_map: for the derived rule forms these go through the forms' own maps
    from ..engines import dispatch as DP
    DP.d4_paired_methods_follow_overrides(ctx, "AbstractRule", (("indexed_forward_map", "forward_map"), ("indexed_backward_map", "backward_map")))
    ctx.floor("D4", 4)
    B.b13_leaf_on_codomain_side(ctx)
    ctx.floor("B13", 1)
    B.b9_state_keyed_by_pairs(ctx)
    ctx.floor("B9", 2)
    J.j5_bijection_maps(ctx)
    # the transport applies the forward / backward maps of derived rule forms
    from ..engines import mapplumbing as M
    M.m1_equivalence_rule(ctx)
    M.m2_reverse_rule(ctx)
    M.m3_path_rule(ctx)
    ctx.floor("M1", 4)
    ctx.floor("M2", 5)
    ctx.floor("M3", 3)
    ctx.floor("B1", 3)
    ctx.floor("B2", 12)
    ctx.floor("B3", 4)
    ctx.floor("B4", 6)
    ctx.floor("B5", 5)
    ctx.floor("B6", 6)
    ctx.floor("B7", 6)
    ctx.floor("J5", 6)
    # what the derived forms override must be what runs: no copy of an overridden delegate, no call pinned to the base class
    from ..engines import dispatch as DP
    DP.d1_no_bypass_of_overridden_delegates(ctx, ("AbstractRule",))
    ctx.floor("D1", 1)
    B.b14_stacks_balanced(ctx, only_classes=("Isomorphism",))
    ctx.floor("B14", 1)
    B.b15_assumed_matches_withdrawn(ctx)
    ctx.floor("B15", 1)
    from ..engines import mapplumbing as M12
    M12.m7_equivalence_predicate(ctx)
    ctx.floor("M7", 4)
    B.b21_param_match_consults_both_sides(ctx)
    ctx.floor("B21", 3)
