"""C06 -- equivalence classes are exactly the strongly connected components.
Structural clauses only: union-find discipline, verified flag on representatives and carried
through merges, recorded edges, normalised loss-free one-way table, cycle merging restricted
to detected cycles, explanation path along recorded edges.  Completeness of the cycle search
(that every cycle is found) is not decided."""
from ..engines import equivrules as Q
from ..engines import labelkind as LK


def run(ctx):
    # language-level slips in the modules the property is anchored in (engine Y)
    from ..engines import gotchas as GY
    GY.run(ctx, ('equiv_db', 'rule_db.base', 'specification_extrator'))
    ctx.floor("Y", 1)
    ctx.extra["explanation"] = (
        "static analysis (ast, no execution) of equiv_db.py: equivalence and verification are decided "
        "through find (self[x]) and never through raw parent pointers; the verified mark lives on "
        "representatives and is carried over every merge; merges link a root under a root with the weights "
        "kept in step; two-way edges are recorded both ways and merge, one-way edges are recorded one way, "
        "enter a normalised, loss-free adjacency table and merge only vertices on a closed cycle; "
        "explanation paths start at the first label, follow recorded edges only and stop at the second. "
        "Decides these necessary clauses (soundness side: no two classes are merged without a cycle, no "
        "mark is lost); does NOT decide that every cycle is found, i.e. the 'exactly' in full."
    )
    K = LK.Kinds(ctx.P)
    LK.k12_union_find_discipline(ctx)
    LK.k6_one_way_table(ctx, K)
    Q.k13_verified_on_representatives(ctx, K)
    Q.k14_merge(ctx)
    Q.k15_edges(ctx)
    Q.k16_connect_cycles(ctx)
    Q.k17_find_path(ctx)
    LK.k4c_connect_before_collapse(ctx)
    ctx.floor("K4", 1)
    ctx.floor("K12", 2)
    ctx.floor("K6", 2)
    ctx.floor("K13", 4)
    ctx.floor("K14", 4)
    ctx.floor("K15", 3)
    ctx.floor("K16", 3)
    ctx.floor("K17", 3)
    # an equivalence walked backwards is the reversal of the original rule at the kept child's own position
    from ..engines import varkind as VK
    VK.v6b_kept_child_position(ctx)
    ctx.floor("V6", 2)
    # every single-child rule reaches the equivalence database as an edge (two-way: merged; one-way: recorded)
    from ..engines import storekeys as SK
    SK.w_insertion_discipline(ctx)
    ctx.floor("W2", 3)
    # classes are marked verified from the dictionary that was stored as pruned
    from ..engines import labelkind as LKK
    LKK.k5_cache_invalidation(ctx)
    ctx.floor("K5", 6)
    # a rule asks its strategy the same question it is asked (round 10)
    from ..engines import dispatch as DP5
    DP5.d5_rule_delegates_to_the_same_question(ctx)
    ctx.floor("D5", 4)
    QK22 = __import__("vstatic.engines.equivrules", fromlist=["x"])
    QK22.k22_parent_pointers_are_not_representatives(ctx)
    ctx.floor("K22", 1)
    # rules shared after round 11: the clause is necessary for this property as well
    from ..engines import provenance as PV6
    from ..engines import closure as G6E
    PV6.a3_recording_sites(ctx)
    PV6.a4_drop_guard(ctx)
    G6E.g3_equivalence_paths(ctx)
    ctx.floor("A3", 7)
    ctx.floor("A4", 3)
    ctx.floor("G3", 2)
