"""C01 -- a specification returned by the searcher enumerates the root class correctly.
No static rule decides counts.  This check decides the chain of structural conditions the
count depends on: the search loop (N6), the closure of what is extracted (G), the wiring of
rules to their children's providers (S3), the four recurrences' shapes (N1-N5), the index
set of a product (S0, M6), and the statistic-name plumbing (V)."""
from ..engines import closure as G
from ..engines import recurrences as N
from ..engines import sizecheck as SC
from ..engines import mapplumbing as M
from ..engines import varkind as V
from ..engines import labelkind as LK


def run(ctx):
    # language-level slips in the modules the property is anchored in (engine Y)
    from ..engines import gotchas as GY
    GY.run(ctx, ('strategies.strategy', 'comb_spec_searcher', 'specification', 'rule_db.base', 'rule_db.forest', 'rule_db.forget', 'specification_extrator', 'strategies.rule', 'strategies.constructor.cartesian', 'strategies.constructor.disjoint', 'utils'))
    ctx.floor("Y", 1)
    ctx.extra["explanation"] = (
        "static analysis (ast, no execution): rules are handed back only after has_specification(), from the same "
        "database, and become a specification rooted at the start class; the extracted rule set is closed (engine G) and "
        "rooted at the right label (K2); every rule's providers are the term functions of its own children, one level "
        "appended per iteration, the first missing one (S3); each of the four recurrences asks the right provider at the "
        "right size, goes through the right parameter map and adds / subtracts / multiplies / divides as the constructor "
        "means (N1-N5); a product runs over the complete, bounded set of compositions (S0, M6); parameter maps and their "
        "application are the class's own (V1-V3, V10), provider results are not written to (V11). Decides these necessary "
        "conditions, each for all inputs; does NOT decide that together they give the true counts (that also needs the "
        "strategies' own contracts), nor the exact provider sizes inside the quotient beyond the shapes named."
    )
    ctx.assume("strategies honour their documented contracts (decomposition, shifts, maps, extra parameters)")
    N.n1_union(ctx)
    N.n2_product(ctx)
    N.n3_complement(ctx)
    N.n4_quotient(ctx)
    N.n5_count_lookup(ctx)
    N.n6_search_loop(ctx)
    from ..engines import expandverified as X
    X.x6_fallback_contract(ctx)
    SC.s0_compositions(ctx)
    SC.s3_ensure_level(ctx)
    M.m6_product_enumeration(ctx)
    M.m4b_verification_levels(ctx)
    V.v1_children_map_builders(ctx)
    V.v2_parent_map_builders(ctx)
    V.v3_map_uses(ctx)
    V.v10_param_map(ctx)
    V.v4_parameter_translation(ctx)
    V.v6_derived_constructors(ctx)
    V.v7_zeroes(ctx)
    V.v11_provider_results_not_written(ctx)
    # nothing the counts go through is memoised under less than it depends on
    from ..engines import forestrules as E
    E.e10_memo_keyed_by_arguments(ctx)
    G.g1_decompositions(ctx)
    G.g2_no_lhs_labels(ctx)
    G.g3_equivalence_paths(ctx)
    G.g4_rules_from_labels(ctx)
    G.g5_specification_dict(ctx)
    G.g6_lazy_empty_rule(ctx)
    G.g7_equivalence_folding(ctx)
    K = LK.Kinds(ctx.P)
    LK.k2_root_identity(ctx, K, modules=("rule_db.base", "rule_db.forget"), floor=1)
    LK.k2_spec_roots(ctx, K, modules=("comb_spec_searcher",))
    for r, n in (("N1", 2), ("N2", 3), ("N3", 3), ("N4", 10), ("N5", 3), ("N6", 5), ("X6", 2), ("S0", 4), ("S3", 4), ("M6", 2), ("M4", 2),
                 ("V1", 14), ("V2", 4), ("V3", 9), ("V10", 3), ("E10", 7), ("V4", 4), ("V6", 8), ("V7", 2), ("V11", 2), ("G1", 3), ("G2", 2), ("G3", 2), ("G4", 4), ("G5", 5), ("G6", 3), ("G7", 8), ("K2", 3)):
        ctx.floor(r, n)
    from ..engines import dispatch as DP
    DP.d2_static_overrides_are_named(ctx, ("Constructor",))
    ctx.floor("D2", 4)
    # classes on a cycle of one-way rules are one class: found whenever the search is asked, whatever happened in between
    from ..engines import equivrules as QE
    QE.k16_connect_cycles(ctx)
    ctx.floor("K16", 3)
    from ..engines import forestrules as FE
    FE.e13_reverse_switch_read_live(ctx)
    ctx.floor("E13", 2)
    # the shifts of a reverse rule are, position by position, those of its own children (round 10)
    from ..engines import sizecheck as SC1
    SC1.s4_forest_keys(ctx)
    for fam1 in SC1.strategy_families(ctx.P):
        st1 = SC1.run_family(ctx, fam1, 3, 2)
        SC1.run_derived(ctx, fam1, 3, st1)
    ctx.floor("S4", 8)
