"""C08 -- random sampling from a specification is exactly uniform.
Rules U1-U6 (engine U): the walks are exact inverse-CDF walks over the weights they
accumulate; the weights being true counts is C01/C09 territory."""
from ..engines import sampler as U


def run(ctx):
    # language-level slips in the modules the property is anchored in (engine Y)
    from ..engines import gotchas as GY
    GY.run(ctx, ('strategies.rule', 'strategies.constructor.cartesian', 'strategies.constructor.disjoint', 'specification', 'utils', 'strategies.strategy'))
    ctx.floor("Y", 1)
    ctx.extra["explanation"] = (
        "static analysis (ast, no execution) of the two threshold walks and their callers: the integer "
        "draw ranges over exactly N = parent count values and is compared with the running total in the "
        "matching (1..N, <=) / (0..N-1, <) idiom; the weight is added before the comparison, once per "
        "alternative, and is the count of the same alternative with the same translated parameters that "
        "is then sampled; N is this rule's own count; the preimage pick is random.choice over all "
        "preimages; an empty size is refused. Decides the arithmetic shape of the walk, not that the "
        "weights are true counts."
    )
    ctx.assume("sub-counts (subrecs) are the true counts of the children")
    U.u1_u2_walks(ctx)
    U.u3_u4_rule_level(ctx)
    U.u5_refusal(ctx)
    from ..engines import varkind as V
    V.v7_zeroes(ctx)
    # sampling translates the requested parameters through the same tables
    V.v4_parameter_translation(ctx)
    V.v6_derived_constructors(ctx)
    V.v8_queries_do_not_mutate_constructor_state(ctx)
    U.u7_parameter_ranges(ctx)
    U.u8_absent_statistic_pinned(ctx)
    ctx.floor("U8", 2)
    ctx.floor("U7", 3)
    # the sampled parts are put together by the backward maps of the derived rule forms
    from ..engines import mapplumbing as M
    M.m1_equivalence_rule(ctx)
    M.m2_reverse_rule(ctx)
    M.m3_path_rule(ctx)
    ctx.floor("M1", 4)
    ctx.floor("M2", 5)
    ctx.floor("M3", 3)
    ctx.floor("V4", 4)
    ctx.floor("V6", 8)
    ctx.floor("V8", 1)
    ctx.floor("V7", 2)
    ctx.floor("U1", 2)
    ctx.floor("U2", 9)
    ctx.floor("U3", 1)
    ctx.floor("U4", 1)
    ctx.floor("U5", 2)
    ctx.floor("U6", 1)
    # what the derived forms override must be what runs: no copy of an overridden delegate, no call pinned to the base class
    from ..engines import dispatch as DP
    DP.d1_no_bypass_of_overridden_delegates(ctx, ("AbstractRule",))
    ctx.floor("D1", 1)
    U.u9_absent_maximum_bounds_nothing(ctx)
    ctx.floor("U9", 1)
    from ..engines import closure as GC
    GC.g9_ungroup_only_when_grouping(ctx)
    ctx.floor("G9", 1)
    from ..engines import sizecheck as SCC
    SCC.s0_compositions(ctx)
    ctx.floor("S0", 4)
    # the statistics of the children reach the parent through position tables built in the children's own order (round 10)
    from ..engines import varkind as V8
    V8.v1_children_map_builders(ctx)
    ctx.floor("V1", 14)
    # rules shared after round 11: the clause is necessary for this property as well
    V8.v3_map_uses(ctx)
    V8.v10_param_map(ctx)
    ctx.floor("V3", 9)
    ctx.floor("V10", 3)
