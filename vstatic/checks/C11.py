"""C11 -- forest extraction returns a minimal, closed, productive rule set.
Rules E1-E7 (structural clauses only)."""
from ..engines import forestrules as E
from ..engines import provenance as PV


def run(ctx):
    # language-level slips in the modules the property is anchored in (engine Y)
    from ..engines import gotchas as GY
    GY.run(ctx, ('rule_db.forest', 'strategies.rule'))
    ctx.floor("Y", 1)
    ctx.extra["explanation"] = (
        "static analysis (ast, no execution) of rule_db/forest.py and of every forest_key "
        "implementation: every bucket a rule can be filed under is minimised, REVERSE first; all "
        "forest_key call sites use the same (get_label, is_empty) pair and every reverse form is "
        "considered; a recomputed rule is returned only when its key equals the requested one; "
        "factory-made rules are probed under a StrategyDoesNotApply handler; only empty rules are "
        "left out. Decides these clauses, not minimality/productivity of the extracted set."
    )
    E.e1_bucket_exhaustiveness(ctx)
    E.e2_reverse_first(ctx)
    E.e3_key_function_agreement(ctx)
    PV.a5_application_discipline(ctx, rule_id="E4", only={"ForestRuleExtractor._rules_for_class"})
    E.e5_find_rule_exact(ctx)
    E.e7_minimise_bookkeeping(ctx)
    E.e8_alias_discipline(ctx)
    E.e9_every_key_is_filed(ctx)
    E.e10_memo_keyed_by_arguments(ctx)
    # the rules the table records are the universe the extractor minimises over
    from ..engines import tablemethod as F
    F.f1_recording(ctx, rule="E11", universe=True)
    F.f13_database_insertion(ctx, rule_id="E11", universe=True)
    F.f11_readers(ctx)
    ctx.floor("E11", 9)
    ctx.floor("F11", 6)
    from ..engines import storekeys as SK
    SK.w4_pack_iteration(ctx)
    ctx.floor("E1", 5)
    ctx.floor("E2", 2)
    ctx.floor("E3", 6)
    ctx.floor("E4", 2)
    ctx.floor("E5", 4)
    ctx.floor("E7", 3)
    ctx.floor("E8", 1)
    E.e12_cache_before_recompute(ctx)
    ctx.floor("E12", 1)
    E.e15_lookup_table_keyed_by_own_key(ctx)
    ctx.floor("E15", 1)
    # the table method and the extractor judge a rule by its key: the three forest_key forms build
    # (label of parent, labels of children in order, shifts) alike, and the shifts a derived rule
    # declares are position by position those of its own children (engine S, quick parameters)
    from ..engines import sizecheck as SC
    SC.s4_forest_keys(ctx)
    for fam in SC.strategy_families(ctx.P):
        st = SC.run_family(ctx, fam, 3, 2)
        SC.run_derived(ctx, fam, 3, st)
    ctx.floor("S4", 8)
    ctx.floor("E9", 1)
    ctx.floor("E10", 7)
    E.e13_reverse_switch_read_live(ctx)
    ctx.floor("E13", 2)
    E.e14_every_bucket_minimised(ctx)
    ctx.floor("E14", 1)
    from ..engines import tablemethod as FT
    FT.f2_initial_shifts(ctx)
    FT.f3_gap_size(ctx)
    ctx.floor("F2", 4)
    # what is extracted is what the table method calls stable: it keeps its books after every change of a value (round 10)
    for fn11 in (FT.f5_firing_test, FT.f6_increase_corrections, FT.f7_infinite_corrections, FT.f8_gap):
        fn11(ctx)
    ctx.floor("F6", 4)
    ctx.floor("F7", 3)
    from ..engines import varkind as V16E
    V16E.v16_injectivity_is_about_values(ctx)
    ctx.floor("V16", 1)
    # rules shared after round 11: the clause is necessary for this property as well
    from ..engines import totality as T11
    T11.check_set_empty_writers(ctx)
    ctx.floor("A6", 3)
    from ..engines import mapplumbing as M11
    M11.m7_equivalence_predicate(ctx)
    ctx.floor("M7", 4)
    from ..engines import expandverified as X11
    X11.x8_cache_filled_before_the_database_is_made(ctx)
    ctx.floor("X8", 1)
