"""Development aid: behaviour-preserving stress of the checkers.  For every function a check
says it analysed, alpha-rename all of that function's local variables (targets of
assignments / loops / with / except / comprehensions; not parameters, not names declared
global/nonlocal, not attributes) in an in-memory overlay and re-run the check: it must stay
silent.  Prints every (check, function) for which it does not."""
import ast
import os
import sys
from concurrent.futures import ProcessPoolExecutor

import importlib

from .core.program import Program, repo_root
from .core.report import Context


def rename_function(src: str, qual: str):
    tree = ast.parse(src)
    parts = qual.split(".")
    body = tree.body
    node = None
    for p in parts:
        node = None
        for st in body:
            if isinstance(st, (ast.FunctionDef, ast.ClassDef)) and st.name == p:
                node = st
                break
        if node is None:
            return None
        body = node.body
    if not isinstance(node, ast.FunctionDef):
        return None
    params = {a.arg for a in node.args.posonlyargs + node.args.args + node.args.kwonlyargs}
    if node.args.vararg:
        params.add(node.args.vararg.arg)
    if node.args.kwarg:
        params.add(node.args.kwarg.arg)
    declared = set()
    stores = set()
    for n in ast.walk(node):
        if isinstance(n, (ast.Global, ast.Nonlocal)):
            declared.update(n.names)
        if isinstance(n, ast.Name) and isinstance(n.ctx, (ast.Store, ast.Del)):
            stores.add(n.id)
        if isinstance(n, ast.ExceptHandler) and n.name:
            pass  # handler names are not Name nodes; leave them
        if isinstance(n, (ast.FunctionDef, ast.ClassDef)) and n is not node:
            stores.discard(n.name)
    # nested function parameters keep their names
    for n in ast.walk(node):
        if isinstance(n, (ast.FunctionDef, ast.Lambda)) and n is not node:
            for a in n.args.posonlyargs + n.args.args + n.args.kwonlyargs:
                stores.discard(a.arg)
    targets = {s for s in stores if s not in params and s not in declared and not s.startswith("__") and s != "_"}
    if not targets:
        return None
    edits = []
    for n in ast.walk(node):
        if isinstance(n, ast.Name) and n.id in targets:
            edits.append((n.lineno, n.col_offset, n.id))
        # keyword arguments named like a local are not Names; nothing to do
    lines = src.split("\n")
    for lineno, col, name in sorted(edits, reverse=True):
        b = lines[lineno - 1].encode("utf-8")
        if b[col: col + len(name)] != name.encode():
            return None
        b = b[:col] + (name + "_r").encode() + b[col + len(name):]
        lines[lineno - 1] = b.decode("utf-8")
    new = "\n".join(lines)
    try:
        compile(new, "x", "exec")
    except SyntaxError:
        return None
    return new


def _locate(tree, qual):
    parts = qual.split(".")
    body = tree.body
    node = None
    for p in parts:
        node = None
        for st in body:
            if isinstance(st, (ast.FunctionDef, ast.ClassDef)) and st.name == p:
                node = st
                break
        if node is None:
            return None
        body = node.body
    return node if isinstance(node, ast.FunctionDef) else None


def noop_function(src: str, qual: str):
    """Insert a `pass` after every simple statement of the function (not after leaving
    statements): dominance / follow relations must not depend on statement adjacency."""
    tree = ast.parse(src)
    node = _locate(tree, qual)
    if node is None:
        return None
    lines = src.split("\n")
    inserts = []
    for n in ast.walk(node):
        if isinstance(n, (ast.Assign, ast.AugAssign, ast.AnnAssign, ast.Expr)) and n is not node:
            if isinstance(n, ast.Expr) and isinstance(n.value, ast.Constant) and isinstance(n.value.value, str):
                continue
            if isinstance(n, ast.Expr) and isinstance(n.value, (ast.Yield, ast.YieldFrom)):
                pass
            inserts.append((n.end_lineno, n.col_offset))
    if not inserts:
        return None
    for end, col in sorted(set(inserts), reverse=True):
        lines.insert(end, " " * col + "pass")
    new = "\n".join(lines)
    try:
        compile(new, "x", "exec")
    except SyntaxError:
        return None
    return new


def annotate_function(src: str, qual: str):
    """Turn every `name = value` (single plain-name target) of the function into an annotated
    assignment `name: object = value`."""
    tree = ast.parse(src)
    node = _locate(tree, qual)
    if node is None:
        return None
    declared = set()
    for n in ast.walk(node):
        if isinstance(n, (ast.Global, ast.Nonlocal)):
            declared.update(n.names)
    lines = src.split("\n")
    edits = []
    seen_ann = set()
    for n in ast.walk(node):
        if isinstance(n, ast.AnnAssign) and isinstance(n.target, ast.Name):
            seen_ann.add(n.target.id)
    for n in ast.walk(node):
        if isinstance(n, ast.Assign) and len(n.targets) == 1 and isinstance(n.targets[0], ast.Name) and n.targets[0].id not in declared \
                and n.targets[0].id not in seen_ann:
            t = n.targets[0]
            edits.append((t.lineno, t.end_col_offset))
            seen_ann.add(t.id)  # annotate each name once (re-annotation is legal but noisy)
    if not edits:
        return None
    for lineno, col in sorted(edits, reverse=True):
        b = lines[lineno - 1].encode("utf-8")
        b = b[:col] + b": object" + b[col:]
        lines[lineno - 1] = b.decode("utf-8")
    new = "\n".join(lines)
    try:
        compile(new, "x", "exec")
    except SyntaxError:
        return None
    return new


def _simple_func(e) -> bool:
    while isinstance(e, ast.Attribute):
        e = e.value
    return isinstance(e, ast.Name)


def _offsets(src: str):
    offs = [0]
    for line in src.split("\n"):
        offs.append(offs[-1] + len(line.encode("utf-8")) + 1)
    return offs


def hoist_function(src: str, qual: str):
    """Extract-local refactoring: `return E` becomes `_hN = E; return _hN`, and the first
    positional argument of the outermost call of a simple statement is bound to a fresh
    local first (the callee expression is a plain attribute chain, so evaluation order of
    anything with an effect is unchanged)."""
    tree = ast.parse(src)
    node = _locate(tree, qual)
    if node is None:
        return None
    bsrc = src.encode("utf-8")
    offs = _offsets(src)

    def span(n):
        return offs[n.lineno - 1] + n.col_offset, offs[n.end_lineno - 1] + n.end_col_offset

    nested = set()
    for n in ast.walk(node):
        if isinstance(n, (ast.FunctionDef, ast.Lambda, ast.ClassDef)) and n is not node:
            for x in ast.walk(n):
                nested.add(id(x))
    edits = []  # (stmt, expr)
    k = 0
    for st in ast.walk(node):
        if id(st) in nested or st is node:
            continue
        target = None
        if isinstance(st, ast.Return) and st.value is not None and not isinstance(st.value, (ast.Name, ast.Constant)):
            target = st.value
        elif isinstance(st, (ast.Assign, ast.AnnAssign, ast.Expr)) and isinstance(getattr(st, "value", None), ast.Call):
            c = st.value
            if _simple_func(c.func) and c.args and not isinstance(c.args[0], (ast.Name, ast.Constant, ast.Starred, ast.GeneratorExp)):
                target = c.args[0]
        if target is None:
            continue
        if any(isinstance(x, (ast.Yield, ast.YieldFrom, ast.Await, ast.NamedExpr)) for x in ast.walk(target)):
            continue
        edits.append((st, target))
    if not edits:
        return None
    out = bsrc
    for st, target in sorted(edits, key=lambda e: span(e[0])[0], reverse=True):
        k += 1
        name = f"_h{k}".encode()
        a, b = span(target)
        sa = offs[st.lineno - 1]
        indent = b" " * st.col_offset
        expr = out[a:b]
        if b"\n" in expr:
            expr = b"(" + expr + b")"
        out = out[:sa] + indent + name + b" = " + expr + b"\n" + out[sa:a] + name + out[b:]
    new = out.decode("utf-8")
    try:
        compile(new, "x", "exec")
    except SyntaxError:
        return None
    return new


MODE = {"rename": None, "noop": None, "annotate": None, "hoist": None}


def job(args):
    pid, rel, qual, mode = args
    root = repo_root()
    src = open(os.path.join(root, rel), encoding="utf-8").read()
    new = {"rename": rename_function, "noop": noop_function, "annotate": annotate_function, "hoist": hoist_function}[mode](src, qual)
    if new is None:
        return (pid, qual + "/" + mode, "skipped", "")
    P = Program(overlay={rel: new})
    mod = importlib.import_module(f"vstatic.checks.{pid}")
    ctx = Context(pid, "quick", P, quiet=True)
    try:
        mod.run(ctx)
    except Exception as e:
        return (pid, qual + "/" + mode, "error", f"{type(e).__name__}: {e}"[:200])
    if ctx.violations:
        return (pid, qual + "/" + mode, "FALSE-ALARM", "; ".join(f"{v.rule}: {v.msg[:80]}" for v in ctx.violations[:3]))
    if ctx.shortfalls:
        return (pid, qual + "/" + mode, "error", ctx.shortfalls[0][:160])
    return (pid, qual + "/" + mode, "ok", "")


def run(pids, modes=("rename", "noop", "annotate", "hoist"), all_functions=False, workers=16):
    """Returns (results, problems)."""
    P = Program()
    index = {fi.qualname: fi for fi in P.all_functions()}
    jobs = []
    for pid in pids:
        mod = importlib.import_module(f"vstatic.checks.{pid}")
        ctx = Context(pid, "quick", P, quiet=True)
        mod.run(ctx)
        # by default only the functions the check declared as analysed; all_functions: every function of the package
        names = sorted(index) if all_functions else sorted(ctx.functions_analysed)
        for q in names:
            fi = index.get(q)
            if fi is None:
                continue
            rel = os.path.relpath(fi.module.path, P.root)
            qual = fi.qualname if fi.cls is not None else fi.name
            for mode in modes:
                jobs.append((pid, rel, qual, mode))
    if not jobs:
        return [], []
    with ProcessPoolExecutor(max_workers=workers) as ex:
        res = list(ex.map(job, jobs, chunksize=4))
    bad = [r for r in res if r[2] in ("FALSE-ALARM", "error")]
    return res, bad


def main():
    from .__main__ import available

    allf = "--all" in sys.argv
    modes = [m for m in ("rename", "noop", "annotate", "hoist") if "--" + m in sys.argv] or ["rename"]
    pids = [a for a in sys.argv[1:] if not a.startswith("--")] or available()
    res, bad = run(pids, modes, allf)
    for r in bad:
        print(*r)
    print(f"{len(res)} rewritten functions, {sum(1 for r in res if r[2]=='ok')} silent, {sum(1 for r in res if r[2]=='skipped')} skipped, {len(bad)} problems")


if __name__ == "__main__":
    main()
