"""
Seeded-variant self-test (DESIGN.md section 7): tests the *checkers*, never the property.

A variant is an edit of one function of /repo's current source, located through the AST
(class/function by name, then a snippet inside that function's own source segment), and
applied to an in-memory overlay -- nothing is written to disk.  `B` variants break one
instance of a rule (the file must still compile) and the check must report a violation
whose rule is the expected one; `N` variants are behaviour-preserving rewrites on which the
check must stay silent.  A variant whose anchor snippet is not found in the current tree is
skipped and counted.  Any miss is reported by the runner as ANALYSIS-ERROR (exit 2).
"""
from __future__ import annotations

import ast
import importlib
import os
import re
from concurrent.futures import ProcessPoolExecutor
from typing import Dict, List, Optional

from .core.program import AnalysisError, Program, repo_root
from .core.report import Context


def _func_span(src: str, path: str, qual: Optional[str]):
    """(start_offset, end_offset) of the source of Class.method / function / Class."""
    if not qual:
        return 0, len(src)
    tree = ast.parse(src)
    parts = qual.split(".")
    body = tree.body
    node = None
    for p in parts:
        node = None
        for st in body:
            if isinstance(st, (ast.FunctionDef, ast.ClassDef, ast.AsyncFunctionDef)) and st.name == p:
                node = st  # keep the first (property getter before setter)
                break
        if node is None:
            return None
        body = node.body
    lines = src.splitlines(keepends=True)
    first = min([node.lineno] + [d.lineno for d in node.decorator_list])
    start = sum(len(l) for l in lines[: first - 1])
    end = sum(len(l) for l in lines[: node.end_lineno])
    return start, end


def _parse_unified(text: str):
    """{relpath: [(old_start, old_lines, new_lines), ...]} of a `git diff`; None for anything
    other than in-place modifications of text files."""
    files: Dict[str, list] = {}
    cur = None
    hunk = None
    for ln in text.split("\n"):
        if ln.startswith("diff --git"):
            cur = None
            hunk = None
        elif ln.startswith("--- "):
            if ln[4:].strip() == "/dev/null":
                return None
        elif ln.startswith("+++ "):
            tgt = ln[4:].strip()
            if tgt == "/dev/null":
                return None
            cur = tgt[2:] if tgt.startswith(("a/", "b/")) else tgt
            files[cur] = []
        elif ln.startswith("@@") and cur is not None:
            m = re.match(r"@@ -(\d+)(?:,\d+)? \+\d+(?:,\d+)? @@", ln)
            if not m:
                return None
            hunk = (int(m.group(1)), [], [])
            files[cur].append(hunk)
        elif hunk is not None and cur is not None:
            if ln.startswith("\\"):
                continue
            if ln.startswith("+"):
                hunk[2].append(ln[1:])
            elif ln.startswith("-"):
                hunk[1].append(ln[1:])
            elif ln.startswith(" ") or ln == "":
                # a context line (git writes an empty context line as a single space; a trailing empty string ends the patch)
                hunk[1].append(ln[1:])
                hunk[2].append(ln[1:])
    for hs in files.values():
        for h in hs:
            while h[1] and h[2] and h[1][-1] == "" and h[2][-1] == "" and len(h[1]) > 1:
                # trailing empty strings produced by the final newline of the patch text
                if h[1][-1] == h[2][-1] == "":
                    h[1].pop()
                    h[2].pop()
                else:
                    break
    return files


def apply_patch_overlay(patch_path: str, root: str) -> Optional[Dict[str, str]]:
    """The sources of `root` with a unified diff applied in memory (hunks located by their
    context: at the stated line, else at the only place where the old lines occur); None when
    it does not apply to the current tree."""
    try:
        with open(patch_path, encoding="utf-8") as f:
            files = _parse_unified(f.read())
    except OSError:
        return None
    if not files:
        return None
    overlay: Dict[str, str] = {}
    for rel, hunks in files.items():
        path = os.path.join(root, rel)
        if not os.path.exists(path) or not rel.endswith(".py"):
            if rel.endswith(".py"):
                return None
            continue
        with open(path, encoding="utf-8") as f:
            lines = f.read().split("\n")
        offset = 0
        for start, old, new in hunks:
            idx = start - 1 + offset
            if idx < 0 or lines[idx:idx + len(old)] != old:
                cands = [i for i in range(len(lines) - len(old) + 1) if lines[i:i + len(old)] == old]
                if len(cands) != 1:
                    return None
                idx = cands[0]
            lines[idx:idx + len(old)] = new
            offset += len(new) - len(old)
        src = "\n".join(lines)
        try:
            compile(src, path, "exec")
        except SyntaxError:
            return None
        overlay[rel] = src
    return overlay or None


def apply_variant(v: dict, root: Optional[str] = None) -> Optional[Dict[str, str]]:
    """Return overlay {relpath: new source} or None if the anchor is not present."""
    root = root or repo_root()
    if "patch" in v:
        return apply_patch_overlay(v["patch"], root)
    overlay: Dict[str, str] = {}
    for ed in v["edits"]:
        rel = ed["file"]
        path = os.path.join(root, rel)
        if not os.path.exists(path):
            return None
        src = overlay.get(rel)
        if src is None:
            with open(path, encoding="utf-8") as f:
                src = f.read()
        span = _func_span(src, path, ed.get("where"))
        if span is None:
            return None
        a, b = span
        seg = src[a:b]
        old, new = ed["old"], ed["new"]
        if seg.count(old) != 1:
            return None
        seg = seg.replace(old, new)
        src = src[:a] + seg + src[b:]
        try:
            compile(src, path, "exec")
        except SyntaxError as e:
            raise AnalysisError(f"variant {v['id']} does not compile: {e}")
        overlay[rel] = src
    return overlay


def _run_one(args):
    pid, v = args
    try:
        overlay = apply_variant(v)
        if overlay is None:
            return (v["id"], "skipped", "")
        P = Program(overlay=overlay)
        mod = importlib.import_module(f"vstatic.checks.{pid}")
        ctx = Context(pid, "quick", P, quiet=True)
        try:
            mod.run(ctx)
        except AnalysisError as e:
            if ctx.violations and v["kind"] == "B":
                rules = sorted({x.rule for x in ctx.violations})
                want = v.get("rule")
                if want and not any(r == want or r.startswith(want) for r in rules):
                    return (v["id"], "fail", f"reported by {rules}, expected rule {want}")
                return (v["id"], "ok", ",".join(rules))
            # fail-closed is an acceptable reaction to a breaking variant only when
            # the variant says so
            if v["kind"] == "B" and v.get("accept_analysis_error"):
                return (v["id"], "ok", f"analysis-error: {e}")
            return (v["id"], "fail", f"analysis error: {e}")
        if ctx.shortfalls and not ctx.violations:
            if v["kind"] == "B" and v.get("accept_analysis_error"):
                return (v["id"], "ok", "analysis-error: " + ctx.shortfalls[0])
            return (v["id"], "fail", "analysis error: " + ctx.shortfalls[0])
        rules = sorted({x.rule for x in ctx.violations})
        if v["kind"] == "B":
            want = v.get("rule")
            if not ctx.violations:
                return (v["id"], "fail", "breaking variant not reported")
            if want and not any(r == want or r.startswith(want) for r in rules):
                return (v["id"], "fail", f"reported by {rules}, expected rule {want}")
            return (v["id"], "ok", ",".join(rules))
        if ctx.violations:
            return (v["id"], "fail", "benign variant reported: " + "; ".join(
                f"{x.rule}@{x.function}" for x in ctx.violations))
        return (v["id"], "ok", "")
    except Exception as e:  # pragma: no cover
        return (v["id"], "fail", f"crash {type(e).__name__}: {e}")


def catalogue(pid: str) -> List[dict]:
    try:
        mod = importlib.import_module(f"vstatic.variants.{pid}")
    except ModuleNotFoundError:
        return []
    out = []
    for v in mod.VARIANTS:
        v = dict(v)
        if "edits" not in v:
            v["edits"] = [{k: v[k] for k in ("file", "where", "old", "new") if k in v}]
        out.append(v)
    return out + patch_catalogue(pid)


VERIF_ROOT = os.path.dirname(os.path.dirname(os.path.abspath(__file__)))


def _left_on_purpose() -> Dict[str, dict]:
    import json
    try:
        with open(os.path.join(VERIF_ROOT, "seeded", "LEFT.json")) as f:
            return json.load(f).get("left", {})
    except (OSError, ValueError):
        return {}


def patch_catalogue(pid: str) -> List[dict]:
    """The independently written changes kept in the repository, as variants: every seeded
    change written against this property must be reported by its check (`B`), every
    behaviour-preserving patch must leave it silent (`N`).  Applied in memory like the others;
    one that no longer applies to the current tree is skipped and counted."""
    import json
    out: List[dict] = []
    sd = os.path.join(VERIF_ROOT, "seeded")
    if os.path.isdir(sd):
        for d in sorted(os.listdir(sd)):
            mp = os.path.join(sd, d, "meta.json")
            pp = os.path.join(sd, d, "patch.diff")
            if not (os.path.isfile(mp) and os.path.isfile(pp)):
                continue
            try:
                with open(mp) as f:
                    meta = json.load(f)
            except (OSError, ValueError):
                continue
            if meta.get("breaks_property") == pid:
                if d in _left_on_purpose():
                    continue        # documented in seeded/LEFT.json: the check answers ANALYSIS-ERROR (or nothing) and DESIGN.md says why
                out.append(dict(id=f"seed:{d}", kind="B", rule=None, patch=pp))
    bd = os.path.join(VERIF_ROOT, "benign")
    if os.path.isdir(bd):
        for d in sorted(os.listdir(bd)):
            pp = os.path.join(bd, d, "patch.diff")
            if os.path.isfile(pp):
                out.append(dict(id=f"benign:{d}", kind="N", patch=pp))
    return out


def selftest(pid: str, verbose: bool = False) -> dict:
    cat = catalogue(pid)
    results = []
    if cat:
        workers = min(16, len(cat), os.cpu_count() or 1)
        with ProcessPoolExecutor(max_workers=workers) as ex:
            results = list(ex.map(_run_one, [(pid, v) for v in cat]))
    kinds = {v["id"]: v["kind"] for v in cat}
    summ = {
        "total": len(cat),
        "breaking": sum(1 for v in cat if v["kind"] == "B"),
        "benign": sum(1 for v in cat if v["kind"] == "N"),
        "breaking_caught": sum(1 for i, s, _ in results if s == "ok" and kinds[i] == "B"),
        "benign_silent": sum(1 for i, s, _ in results if s == "ok" and kinds[i] == "N"),
        "skipped": sum(1 for _, s, _ in results if s == "skipped"),
    }
    # skipped variants reduce the denominators they cannot be judged against
    sk = {i for i, s, _ in results if s == "skipped"}
    summ["breaking"] -= sum(1 for i in sk if kinds[i] == "B")
    summ["benign"] -= sum(1 for i in sk if kinds[i] == "N")
    failures = [f"{i}: {m}" for i, s, m in results if s == "fail"]
    if verbose:
        for i, s, m in results:
            print(f"   {s:8s} {kinds[i]} {i} {m}")
    return {"summary": summ, "failures": failures, "results": results}
