"""vstatic -- repository-specific static analysis of comb_spec_searcher (see DESIGN.md)."""
