"""
Runner.

  python -m vstatic check <ID> [--tier quick|thorough]
  python -m vstatic replay <path>
  python -m vstatic selfcheck
  python -m vstatic selftest [<ID> ...]        (seeded-variant self-test only)
  python -m vstatic all [--tier ...]           (development aid)

Exit codes: 0 property held on everything analysed (known findings are printed),
1 VIOLATION, 2 ANALYSIS-ERROR (never a verdict).
"""
from __future__ import annotations

import argparse
import importlib
import json
import os
import sys
import traceback

from .core.program import AnalysisError, Program
from .core.report import Context

CLAIMED = [
    "C01", "C02",
    "C03", "C04", "C05", "C06", "C07", "C08", "C09", "C10", "C11", "C12", "C13",
    "C14", "C15", "C16", "C17", "C18", "C19", "C20",
]


def available():
    out = []
    here = os.path.join(os.path.dirname(__file__), "checks")
    for pid in CLAIMED:
        if os.path.exists(os.path.join(here, pid + ".py")):
            out.append(pid)
    return out


def run_check(pid: str, tier: str, program=None, quiet: bool = False) -> "tuple[int, Context]":
    mod = importlib.import_module(f"vstatic.checks.{pid}")
    P = program or Program()
    ctx = Context(pid, tier, P, quiet=quiet)
    from .core.program import AnalysisError
    try:
        mod.run(ctx)
    except AnalysisError as e:
        # what was already found stands; the rules that could not read the code are reported next to it
        if not ctx.violations:
            raise
        ctx.shortfalls.append(f"a later rule could not read the code: {e}")
    return 0, ctx


def cmd_check(pid: str, tier: str) -> int:
    try:
        _, ctx = run_check(pid, tier)
        if tier == "thorough":
            from . import mutants

            st = mutants.selftest(pid)
            ctx.extra["selftest"] = st["summary"]
            ctx.out(
                f"ANALYSED selftest property={pid} variants={st['summary']['total']} "
                f"breaking_caught={st['summary']['breaking_caught']}/{st['summary']['breaking']} "
                f"benign_silent={st['summary']['benign_silent']}/{st['summary']['benign']} "
                f"skipped={st['summary']['skipped']}"
            )
            if st["failures"]:
                for f in st["failures"]:
                    ctx.out(f"ANALYSIS-ERROR selftest {f}")
                ctx.finish()
                return 2
            # behaviour-preserving rewrites of every function the rules looked at must leave them silent
            from . import stress

            res, bad = stress.run([pid])
            ctx.extra["stress"] = {"rewritten": sum(1 for r in res if r[2] == "ok"), "skipped": sum(1 for r in res if r[2] == "skipped"),
                                   "modes": ["rename", "noop", "annotate", "hoist"], "problems": len(bad)}
            ctx.out(f"ANALYSED stress property={pid} rewritten_functions={ctx.extra['stress']['rewritten']} problems={len(bad)}")
            if bad:
                for r in bad:
                    ctx.out("ANALYSIS-ERROR stress " + " ".join(str(x) for x in r)[:300])
                ctx.finish()
                return 2
        return ctx.finish()
    except AnalysisError as e:
        print(f"ANALYSIS-ERROR property={pid} {e}")
        return 2
    except Exception:  # crash must never look like a verdict
        traceback.print_exc()
        print(f"ANALYSIS-ERROR property={pid} uncaught exception in the analysis")
        return 2


def cmd_replay(path: str) -> int:
    with open(path) as f:
        rec = json.load(f)
    pid = rec["property"]
    keys = {(v["rule"], v["function"], v["construct"]) for v in rec["violations"]}
    try:
        _, ctx = run_check(pid, rec.get("tier", "quick"), quiet=True)
    except AnalysisError as e:
        print(f"ANALYSIS-ERROR property={pid} {e}")
        return 2
    still = [v for v in ctx.violations if v.key in keys]
    for v in still:
        print(f"{v.loc} rule={v.rule} instance={v.function} :: {v.construct} : {v.msg}")
    if still:
        print(f"VIOLATION property={pid} replay={path}")
        return 1
    print(f"OK property={pid} (the recorded violations no longer occur on the current tree)")
    return 0


def cmd_selfcheck() -> int:
    """setup_cmd: import everything, parse /repo, run the in-memory fixtures."""
    try:
        P = Program()
        print(f"parsed {len(P.files)} files, {len(P.classes)} classes, digest {P.digest()}")
        for pid in available():
            importlib.import_module(f"vstatic.checks.{pid}")
        from . import fixtures

        n = fixtures.run_all()
        print(f"fixtures ok: {n}")
        return 0
    except Exception:
        traceback.print_exc()
        print("ANALYSIS-ERROR selfcheck failed")
        return 2


def main(argv=None) -> int:
    ap = argparse.ArgumentParser(prog="vstatic")
    sub = ap.add_subparsers(dest="cmd", required=True)
    c = sub.add_parser("check")
    c.add_argument("pid")
    c.add_argument("--tier", default=os.environ.get("VERIF_TIER", "quick"), choices=["quick", "thorough"])
    r = sub.add_parser("replay")
    r.add_argument("path")
    sub.add_parser("selfcheck")
    s = sub.add_parser("selftest")
    s.add_argument("pids", nargs="*")
    a = sub.add_parser("all")
    a.add_argument("--tier", default="quick", choices=["quick", "thorough"])
    args = ap.parse_args(argv)
    if args.cmd == "check":
        return cmd_check(args.pid, args.tier)
    if args.cmd == "replay":
        return cmd_replay(args.path)
    if args.cmd == "selfcheck":
        return cmd_selfcheck()
    if args.cmd == "selftest":
        from . import mutants

        rc = 0
        for pid in args.pids or available():
            st = mutants.selftest(pid, verbose=True)
            print(pid, json.dumps(st["summary"]))
            for f in st["failures"]:
                print("  FAIL", f)
                rc = 2
        return rc
    if args.cmd == "all":
        worst = 0
        for pid in available():
            print(f"===== {pid}")
            worst = max(worst, cmd_check(pid, args.tier))
        return worst
    return 2


if __name__ == "__main__":
    sys.exit(main())
