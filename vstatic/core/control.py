"""
Structured control model (DESIGN.md appendix D).

Python has no CFG library; the rules need only, inside one function:
 * guards(node)            -- the tests (with polarity) that hold whenever `node` runs
 * dominates(a, b)         -- statement a runs on every path from entry to node b
 * followed_by(a, b)       -- b runs after a on every normal continuation of a's block
 * handlers_around(node)   -- exception names caught around node (it is in a try body)
 * always_leaves(stmts)    -- every path through stmts ends in return/raise/continue/break
All are computed syntax-directed over the statement kinds the package uses; meeting a
`match` / `async` construct on a queried path is an AnalysisError (fail closed).
"""
from __future__ import annotations

import ast
from typing import Iterator, List, Optional, Sequence, Set, Tuple

from .program import AnalysisError, ancestors, parent, unparse, walk_local

LEAVE = (ast.Return, ast.Raise, ast.Continue, ast.Break)
FUNC = (ast.FunctionDef, ast.AsyncFunctionDef, ast.Lambda)
UNSUPPORTED = tuple(
    t
    for t in (
        getattr(ast, "Match", None),
        ast.AsyncFor,
        ast.AsyncWith,
        getattr(ast, "TryStar", None),
    )
    if t is not None
)


def _blocks_of(stmt: ast.AST) -> List[Tuple[str, List[ast.stmt]]]:
    out = []
    for field in ("body", "orelse", "finalbody"):
        v = getattr(stmt, field, None)
        if isinstance(v, list) and v and isinstance(v[0], ast.stmt):
            out.append((field, v))
    if isinstance(stmt, ast.Try):
        for h in stmt.handlers:
            out.append(("handler", h.body))
    return out


def stmt_of(node: ast.AST) -> ast.stmt:
    """Innermost statement containing node (or node itself)."""
    cur = node
    while cur is not None and not isinstance(cur, ast.stmt):
        cur = parent(cur)
    if cur is None:
        raise AnalysisError("node is not inside a statement")
    return cur


def block_path(func: ast.AST, node: ast.AST) -> List[Tuple[ast.AST, str, List[ast.stmt], int]]:
    """From the function body down to node: list of (container, field, block, index)
    where block[index] is the statement (transitively) containing node."""
    chain: List[ast.AST] = [node]
    for a in ancestors(node):
        chain.append(a)
        if a is func:
            break
    else:
        raise AnalysisError("node is not inside the given function")
    chain.reverse()  # func ... node
    path = []
    for i, container in enumerate(chain[:-1]):
        nxt = chain[i + 1]
        if isinstance(container, UNSUPPORTED):
            raise AnalysisError(
                f"unsupported control construct {type(container).__name__} "
                f"at line {container.lineno}"
            )
        if isinstance(container, ast.ExceptHandler):
            if nxt in container.body:
                path.append((container, "handler", container.body, container.body.index(nxt)))
            continue
        for field in ("body", "orelse", "finalbody"):
            blk = getattr(container, field, None)
            if isinstance(blk, list) and nxt in blk:
                path.append((container, field, blk, blk.index(nxt)))
                break
    return path


def always_leaves(stmts: Sequence[ast.stmt]) -> bool:
    """True if no path through stmts falls off the end."""
    for st in stmts:
        if isinstance(st, LEAVE):
            return True
        if isinstance(st, ast.If):
            if st.orelse and always_leaves(st.body) and always_leaves(st.orelse):
                return True
        elif isinstance(st, ast.Try):
            body_leaves = always_leaves(st.body) or (
                bool(st.orelse) and always_leaves(st.orelse)
            )
            if st.finalbody and always_leaves(st.finalbody):
                return True
            if body_leaves and all(always_leaves(h.body) for h in st.handlers):
                return True
        elif isinstance(st, ast.With):
            if always_leaves(st.body):
                return True
        elif isinstance(st, ast.While):
            # `while True:` without break never falls through
            if (
                isinstance(st.test, ast.Constant)
                and st.test.value is True
                and not any(isinstance(n, ast.Break) for n in _loop_local(st))
            ):
                return True
    return False


def _loop_local(loop: ast.AST) -> Iterator[ast.AST]:
    """Nodes of a loop body that belong to this loop (not nested loops/functions)."""
    stack = list(loop.body) + list(getattr(loop, "orelse", []))
    while stack:
        n = stack.pop()
        yield n
        if isinstance(n, FUNC + (ast.ClassDef, ast.For, ast.While)):
            continue
        stack.extend(ast.iter_child_nodes(n))


Guard = Tuple[ast.AST, bool]


def guards(func: ast.AST, node: ast.AST, within: Optional[ast.AST] = None) -> List[Guard]:
    """Tests (expr, polarity) known to hold when node is evaluated.

    Sources: enclosing if/while tests; preceding sibling `if c: <always leaves>` (gives
    not c) and `if c: ... else: <always leaves>` (gives c); preceding sibling asserts;
    enclosing IfExp arms; preceding operands of and/or; comprehension ifs.
    Loops: a leave-only `if` earlier in the same loop body guards later statements of the
    same iteration, which is what the rules ask about.
    """
    res: List[Guard] = []
    inside = within is None
    for container, field, blk, idx in block_path(func, node):
        if not inside:
            # only tests evaluated inside `within` count (control dependence on a test
            # made after entering that region)
            if container is within:
                inside = True
                for prev in blk[:idx]:
                    _sibling_guard(prev, res)
            continue
        if isinstance(container, ast.If):
            res.append((container.test, field == "body"))
        elif isinstance(container, ast.While) and field == "body":
            res.append((container.test, True))
        for prev in blk[:idx]:
            _sibling_guard(prev, res)
    # expression-level guards
    cur = node
    for a in ancestors(node):
        if a is func or isinstance(a, ast.stmt):
            break
        if isinstance(a, ast.IfExp):
            if cur is a.body:
                res.append((a.test, True))
            elif cur is a.orelse:
                res.append((a.test, False))
        elif isinstance(a, ast.BoolOp):
            i = a.values.index(cur) if cur in a.values else -1
            for v in a.values[: max(i, 0)]:
                res.append((v, isinstance(a.op, ast.And)))
        elif isinstance(a, (ast.GeneratorExp, ast.ListComp, ast.SetComp, ast.DictComp)):
            elt_side = cur is getattr(a, "elt", None) or cur in (
                getattr(a, "key", None),
                getattr(a, "value", None),
            )
            if elt_side:
                for g in a.generators:
                    for cond in g.ifs:
                        res.append((cond, True))
        cur = a
    return res


def _sibling_guard(prev: ast.stmt, res: List[Guard]) -> None:
    if isinstance(prev, ast.If):
        bl, ol = always_leaves(prev.body), bool(prev.orelse) and always_leaves(prev.orelse)
        if bl and not ol:
            res.append((prev.test, False))
        elif ol and not bl:
            res.append((prev.test, True))
    elif isinstance(prev, ast.Assert):
        res.append((prev.test, True))


def flatten_guards(gs: List[Guard]) -> List[Guard]:
    """Split conjunctions that hold positively / disjunctions that hold negatively,
    and strip `not`."""
    out: List[Guard] = []
    stack = list(gs)
    while stack:
        e, pol = stack.pop()
        # `__debug__` is what makes `assert` run; asserts are read as guards, so the spelled-out
        # form `if __debug__ and not c: raise AssertionError` is read the same way (__debug__ = True)
        if isinstance(e, ast.BoolOp) and any(isinstance(v, ast.Name) and v.id == "__debug__" for v in e.values):
            rest = [v for v in e.values if not (isinstance(v, ast.Name) and v.id == "__debug__")]
            if isinstance(e.op, ast.And) and rest:
                e = rest[0] if len(rest) == 1 else ast.BoolOp(op=ast.And(), values=rest)
            elif isinstance(e.op, ast.And):
                continue
        if isinstance(e, ast.Name) and e.id == "__debug__":
            continue
        if isinstance(e, ast.UnaryOp) and isinstance(e.op, ast.Not):
            stack.append((e.operand, not pol))
        elif isinstance(e, ast.BoolOp) and isinstance(e.op, ast.And) and pol:
            stack.extend((v, True) for v in e.values)
        elif isinstance(e, ast.BoolOp) and isinstance(e.op, ast.Or) and not pol:
            stack.extend((v, False) for v in e.values)
        else:
            out.append((e, pol))
    return out


def guard_texts(func: ast.AST, node: ast.AST, within: Optional[ast.AST] = None) -> Set[Tuple[str, bool]]:
    return {(" ".join(unparse(e).split()), p) for e, p in flatten_guards(guards(func, node, within))}


def dominates(func: ast.AST, a: ast.stmt, b: ast.AST) -> bool:
    """Statement a executes on every path from function entry to node b (exceptions
    escaping calls are not modelled): a is an earlier statement of one of the blocks on
    b's block path.  Reaching a later statement of a block means every earlier statement
    of that block completed normally (also inside a loop body: same iteration)."""
    for _container, _field, blk, idx in block_path(func, b):
        if any(a is s for s in blk[:idx]):
            return True
    return False


def unconditional_in_stmt(node: ast.AST) -> bool:
    """node is evaluated whenever its innermost statement is executed (it is not under
    an IfExp arm, a short-circuit operand other than the first, a comprehension, a
    lambda, or the body of a compound statement)."""
    cur = node
    for a in ancestors(node):
        if isinstance(a, ast.stmt):
            if isinstance(a, (ast.If, ast.While)):
                return cur is a.test
            if isinstance(a, ast.For):
                return cur is a.iter
            if isinstance(a, (ast.With, ast.Try, ast.FunctionDef, ast.ClassDef)):
                return isinstance(a, ast.With) and any(cur is i for i in a.items)
            return True
        if isinstance(a, ast.IfExp) and cur is not a.test:
            return False
        if isinstance(a, ast.BoolOp) and cur is not a.values[0]:
            return False
        if isinstance(a, (ast.GeneratorExp, ast.ListComp, ast.SetComp, ast.DictComp, ast.Lambda)):
            return False
        cur = a
    return False


def dominates_node(func: ast.AST, a: ast.AST, b: ast.AST) -> bool:
    """Expression/statement node a is evaluated on every path to b."""
    sa = stmt_of(a)
    if sa is not a and not unconditional_in_stmt(a):
        return False
    return dominates(func, sa, b)


def _may_leave(st: ast.AST, loop_depth: int = 0) -> bool:
    """Statement may leave the enclosing block abnormally (return/raise, or
    break/continue that targets a loop outside st)."""
    if isinstance(st, (ast.Return, ast.Raise)):
        return True
    if isinstance(st, (ast.Break, ast.Continue)):
        return loop_depth == 0
    if isinstance(st, FUNC + (ast.ClassDef,)):
        return False
    if isinstance(st, (ast.For, ast.While)):
        return any(_may_leave(s, loop_depth + 1) for s in st.body) or any(
            _may_leave(s, loop_depth) for s in st.orelse
        )
    for _, blk in _blocks_of(st):
        if any(_may_leave(s, loop_depth) for s in blk):
            return True
    return False


def followed_by(func: ast.AST, a: ast.AST, b: ast.AST) -> bool:
    """b executes after a on every normal continuation: b's statement is a later sibling
    of a's statement or of one of the compound statements enclosing it, and no statement
    in between (the rest of each enclosed block after a, then up to b) may leave."""
    sa = stmt_of(a)
    sb = stmt_of(b)
    path = block_path(func, sa)
    for container, field, blk, ia in reversed(path):
        if any(sb is s for s in blk):
            ib = [i for i, s in enumerate(blk) if s is sb][0]
            if ib <= ia:
                return False
            return not any(_may_leave(s) for s in blk[ia + 1 : ib])
        if any(_may_leave(s) for s in blk[ia + 1 :]):
            return False
        if isinstance(container, (ast.FunctionDef, ast.AsyncFunctionDef, ast.Lambda)):
            return False
    return False


def handlers_around(func: ast.AST, node: ast.AST) -> List[Tuple[ast.Try, ast.ExceptHandler, Set[str]]]:
    """Handlers of every try whose *body* encloses node, innermost first, with the set
    of exception names each catches ('*' for bare except)."""
    out = []
    path = block_path(func, node)
    for container, field, blk, idx in reversed(path):
        if isinstance(container, ast.Try) and field == "body":
            for h in container.handlers:
                out.append((container, h, handler_names(h)))
    return out


def handler_names(h: ast.ExceptHandler) -> Set[str]:
    if h.type is None:
        return {"*"}
    t = h.type
    elts = t.elts if isinstance(t, ast.Tuple) else [t]
    names = set()
    for e in elts:
        if isinstance(e, ast.Attribute):
            names.add(e.attr)
        elif isinstance(e, ast.Name):
            names.add(e.id)
        else:
            names.add(unparse(e))
    return names


EXC_PARENTS = {
    "KeyError": {"LookupError", "Exception", "BaseException", "*"},
    "IndexError": {"LookupError", "Exception", "BaseException", "*"},
    "StopIteration": {"Exception", "BaseException", "*"},
    "NotImplementedError": {"RuntimeError", "Exception", "BaseException", "*"},
    "StrategyDoesNotApply": {"Exception", "BaseException", "*"},
    "AssertionError": {"Exception", "BaseException", "*"},
}


def caught(names: Set[str], exc: str) -> bool:
    return exc in names or bool(names & EXC_PARENTS.get(exc, {"Exception", "BaseException", "*"}))


def catching_handler(func: ast.AST, node: ast.AST, exc: str) -> Optional[ast.ExceptHandler]:
    for _try, h, names in handlers_around(func, node):
        if caught(names, exc):
            return h
    return None


def enclosing_loops(func: ast.AST, node: ast.AST) -> List[ast.AST]:
    out = []
    for a in ancestors(node):
        if a is func:
            break
        if isinstance(a, (ast.For, ast.While)):
            out.append(a)
        if isinstance(a, FUNC):
            break
    return out


def returns_of(func: ast.AST) -> List[ast.Return]:
    return [n for n in walk_local(func) if isinstance(n, ast.Return)]


def yields_of(func: ast.AST) -> List[ast.AST]:
    return [n for n in walk_local(func) if isinstance(n, (ast.Yield, ast.YieldFrom))]


def raises_of(func: ast.AST) -> List[ast.Raise]:
    return [n for n in walk_local(func) if isinstance(n, ast.Raise)]


def truth(test: ast.AST, facts) -> Optional[bool]:
    """Three-valued evaluation of a test under `facts` (normalised atom text -> bool).
    Understands not / and / or, and the complement pairs == / !=, in / not in, is / is not.
    None = not decided by the facts."""
    from .program import norm as _norm

    if isinstance(test, ast.UnaryOp) and isinstance(test.op, ast.Not):
        v = truth(test.operand, facts)
        return None if v is None else (not v)
    if isinstance(test, ast.BoolOp):
        vals = [truth(v, facts) for v in test.values]
        if isinstance(test.op, ast.And):
            if any(v is False for v in vals):
                return False
            return True if all(v is True for v in vals) else None
        if any(v is True for v in vals):
            return True
        return False if all(v is False for v in vals) else None
    t = _norm(test)
    if t in facts:
        return facts[t]
    if isinstance(test, ast.Compare) and len(test.ops) == 1:
        comp = {ast.Eq: "!=", ast.NotEq: "==", ast.In: "not in", ast.NotIn: "in", ast.Is: "is not", ast.IsNot: "is"}.get(type(test.ops[0]))
        if comp is not None:
            for a, b in ((test.left, test.comparators[0]), (test.comparators[0], test.left)):
                alt = f"{_norm(a)} {comp} {_norm(b)}"
                if alt in facts:
                    return not facts[alt]
                if isinstance(test.ops[0], (ast.In, ast.NotIn, ast.Is, ast.IsNot)):
                    break
        if isinstance(test.ops[0], (ast.Eq, ast.NotEq)):
            sw = f"{_norm(test.comparators[0])} {'==' if isinstance(test.ops[0], ast.Eq) else '!='} {_norm(test.left)}"
            if sw in facts:
                return facts[sw]
    if isinstance(test, ast.Constant):
        return bool(test.value)
    return None


def runs_under(func: ast.AST, node: ast.AST, facts, within: Optional[ast.AST] = None) -> Optional[bool]:
    """Does `node` run when `facts` hold?  True if every guard evaluates to its required
    polarity, False if one evaluates to the opposite, None if the facts do not decide."""
    res: Optional[bool] = True
    for t, pol in guards(func, node, within=within):
        v = truth(t, facts)
        if v is None:
            res = None if res is not False else False
            continue
        if v != pol:
            return False
    return res


# ---------------------------------------------------------------- acquire / release paths
def _count_in(st: ast.AST, is_release) -> int:
    n = 0
    stack = [st]
    while stack:
        x = stack.pop()
        if isinstance(x, FUNC + (ast.Lambda, ast.ClassDef)) and x is not st:
            continue
        if is_release(x):
            n += 1
        stack.extend(ast.iter_child_nodes(x))
    return n


def _exits(stmts: List[ast.stmt], is_release, count: int, depth: int) -> List[Tuple[int, str, ast.AST]]:
    """Paths through a statement list: (releases seen, how the path leaves, where).
    kinds: fall, break, continue, return, raise.  Nested loops must be neutral (every way
    through their body releases nothing) except for the returns inside them."""
    if depth > 40:
        raise AnalysisError("release_paths: nesting too deep")
    paths: List[Tuple[int, ast.AST]] = [(count, None)]      # live paths (count)
    out: List[Tuple[int, str, ast.AST]] = []
    for st in stmts:
        if not paths:
            break
        new_live: List[Tuple[int, ast.AST]] = []
        for c, _ in paths:
            if isinstance(st, ast.Return):
                out.append((c + (_count_in(st.value, is_release) if st.value is not None else 0), "return", st))
            elif isinstance(st, ast.Raise):
                out.append((c, "raise", st))
            elif isinstance(st, ast.Break):
                out.append((c, "break", st))
            elif isinstance(st, ast.Continue):
                out.append((c, "continue", st))
            elif isinstance(st, ast.If):
                c0 = c + _count_in(st.test, is_release)
                for br in (st.body, st.orelse):
                    for e in _exits(br, is_release, c0, depth + 1):
                        if e[1] == "fall":
                            new_live.append((e[0], None))
                        else:
                            out.append(e)
            elif isinstance(st, (ast.For, ast.While)):
                inner = _exits(st.body, is_release, 0, depth + 1)
                for e in inner:
                    if e[1] in ("return", "raise"):
                        out.append((c + e[0], e[1], e[2]))
                    elif e[0] != 0:
                        raise AnalysisError("release_paths: a nested loop releases on some of its paths")
                for e in _exits(st.orelse, is_release, c, depth + 1):
                    if e[1] == "fall":
                        new_live.append((e[0], None))
                    else:
                        out.append(e)
                # a `break` inside skips the else clause
                if st.orelse and any(e[1] == "break" for e in inner):
                    new_live.append((c, None))
            elif isinstance(st, ast.Try):
                alts = [st.body + st.orelse] + [h.body for h in st.handlers]
                for alt in alts:
                    for e in _exits(alt + st.finalbody, is_release, c, depth + 1):
                        if e[1] == "fall":
                            new_live.append((e[0], None))
                        else:
                            out.append(e)
            elif isinstance(st, ast.With):
                for e in _exits(st.body, is_release, c, depth + 1):
                    if e[1] == "fall":
                        new_live.append((e[0], None))
                    else:
                        out.append(e)
            else:
                new_live.append((c + _count_in(st, is_release), None))
        # de-duplicate counts
        seen = set()
        paths = []
        for c, _ in new_live:
            if c not in seen:
                seen.add(c)
                paths.append((c, None))
    for c, _ in paths:
        out.append((c, "fall", stmts[-1] if stmts else None))
    return out


def release_paths(func: ast.AST, acquire: ast.AST, is_release) -> List[Tuple[int, str, ast.AST]]:
    """Every way control can go on after the statement containing `acquire` until the end of
    the innermost enclosing loop iteration (or of the function): how many release
    operations it meets and how it ends."""
    st = stmt_of(acquire)
    bp = block_path(func, st)
    # innermost first
    conts: List[List[ast.stmt]] = []
    for container, field, blk, idx in reversed(bp):
        conts.append(blk[idx + 1:])
        if isinstance(container, (ast.For, ast.While)) and field == "body":
            break
        if isinstance(container, FUNC):
            break
        if isinstance(container, ast.Try) or isinstance(container, ast.ExceptHandler):
            raise AnalysisError("release_paths: acquire inside try/except is not handled")
    live = [0]
    out: List[Tuple[int, str, ast.AST]] = []
    for rest in conts:
        nxt = []
        for c in live:
            for e in _exits(rest, is_release, c, 0):
                if e[1] == "fall":
                    nxt.append(e[0])
                else:
                    out.append(e)
        live = sorted(set(nxt))
        if not live:
            break
    for c in live:
        out.append((c, "fall", st))
    return out
