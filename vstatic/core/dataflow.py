"""
Small intraprocedural def-use helpers (flow-insensitive reaching definitions with the
structure needed by the rules: tuple unpacking, for-targets, with/except names,
comprehension targets).
"""
from __future__ import annotations

import ast
from typing import Dict, Iterator, List, Optional, Tuple

from .program import walk_local, unparse, parent

# A definition of a local name: (statement-or-comprehension node, value expression or
# None when not a plain value, selector path for tuple unpacking, kind)
Def = Tuple[ast.AST, Optional[ast.AST], Tuple[int, ...], str]


def _targets(t: ast.AST, path: Tuple[int, ...] = ()) -> Iterator[Tuple[ast.AST, Tuple[int, ...]]]:
    if isinstance(t, (ast.Tuple, ast.List)):
        for i, e in enumerate(t.elts):
            yield from _targets(e, path + (i,))
    elif isinstance(t, ast.Starred):
        yield from _targets(t.value, path + (-1,))
    else:
        yield t, path


def definitions(func: ast.AST, comp: bool = False) -> Dict[str, List[Def]]:
    """comp=True also lists comprehension targets (they live in their own scope)."""
    defs: Dict[str, List[Def]] = {}

    def add(name: str, d: Def):
        defs.setdefault(name, []).append(d)

    if isinstance(func, (ast.FunctionDef, ast.AsyncFunctionDef, ast.Lambda)):
        a = func.args
        for arg in a.posonlyargs + a.args + a.kwonlyargs:
            add(arg.arg, (func, None, (), "param"))
        if a.vararg:
            add(a.vararg.arg, (func, None, (), "vararg"))
        if a.kwarg:
            add(a.kwarg.arg, (func, None, (), "kwarg"))
    for node in walk_local(func):
        if isinstance(node, ast.Assign):
            for t in node.targets:
                for tt, path in _targets(t):
                    if isinstance(tt, ast.Name):
                        add(tt.id, (node, node.value, path, "assign"))
        elif isinstance(node, ast.AnnAssign):
            if isinstance(node.target, ast.Name) and node.value is not None:
                add(node.target.id, (node, node.value, (), "assign"))
        elif isinstance(node, ast.AugAssign):
            if isinstance(node.target, ast.Name):
                add(node.target.id, (node, None, (), "augassign"))
        elif isinstance(node, (ast.For, ast.AsyncFor)):
            for tt, path in _targets(node.target):
                if isinstance(tt, ast.Name):
                    add(tt.id, (node, node.iter, path, "for"))
        elif isinstance(node, ast.comprehension):
            if comp:
                for tt, path in _targets(node.target):
                    if isinstance(tt, ast.Name):
                        add(tt.id, (node, node.iter, path, "comp"))
        elif isinstance(node, (ast.With, ast.AsyncWith)):
            for it in node.items:
                if it.optional_vars is not None:
                    for tt, path in _targets(it.optional_vars):
                        if isinstance(tt, ast.Name):
                            add(tt.id, (node, it.context_expr, path, "with"))
        elif isinstance(node, ast.ExceptHandler):
            if node.name:
                add(node.name, (node, None, (), "except"))
        elif isinstance(node, ast.NamedExpr):
            if isinstance(node.target, ast.Name):
                add(node.target.id, (node, node.value, (), "assign"))
        elif isinstance(node, (ast.FunctionDef, ast.ClassDef)):
            add(node.name, (node, None, (), "def"))
        elif isinstance(node, (ast.Import, ast.ImportFrom)):
            for al in node.names:
                add(al.asname or al.name.split(".")[0], (node, None, (), "import"))
    return defs


def param_names(func: ast.AST) -> List[str]:
    a = func.args
    out = [x.arg for x in a.posonlyargs + a.args + a.kwonlyargs]
    if a.vararg:
        out.append(a.vararg.arg)
    if a.kwarg:
        out.append(a.kwarg.arg)
    return out


def single_value(defs: Dict[str, List[Def]], name: str) -> Optional[ast.AST]:
    """The value expression if `name` has exactly one plain definition."""
    ds = defs.get(name, [])
    if len(ds) == 1 and ds[0][3] == "assign" and ds[0][2] == () and ds[0][1] is not None:
        return ds[0][1]
    return None


def resolve(defs: Dict[str, List[Def]], expr: ast.AST, depth: int = 6) -> ast.AST:
    """Follow single plain assignments of local names."""
    cur = expr
    for _ in range(depth):
        if isinstance(cur, ast.Name):
            v = single_value(defs, cur.id)
            if v is None:
                return cur
            cur = v
        else:
            return cur
    return cur


def values_of(defs: Dict[str, List[Def]], name: str) -> List[Def]:
    return defs.get(name, [])


def names_in(expr: ast.AST) -> List[str]:
    return [n.id for n in ast.walk(expr) if isinstance(n, ast.Name)]


def strip_casts(expr: ast.AST) -> ast.AST:
    """cast(T, x) -> x ; bool(x)/int(x) kept."""
    while (
        isinstance(expr, ast.Call)
        and isinstance(expr.func, ast.Name)
        and expr.func.id == "cast"
        and len(expr.args) == 2
    ):
        expr = expr.args[1]
    return expr
