"""
Small intraprocedural def-use helpers (flow-insensitive reaching definitions with the
structure needed by the rules: tuple unpacking, for-targets, with/except names,
comprehension targets).
"""
from __future__ import annotations

import ast
from typing import Dict, Iterator, List, Optional, Tuple

from .program import walk_local, unparse, parent

# A definition of a local name: (statement-or-comprehension node, value expression or
# None when not a plain value, selector path for tuple unpacking, kind)
Def = Tuple[ast.AST, Optional[ast.AST], Tuple[int, ...], str]


def _targets(t: ast.AST, path: Tuple[int, ...] = ()) -> Iterator[Tuple[ast.AST, Tuple[int, ...]]]:
    if isinstance(t, (ast.Tuple, ast.List)):
        for i, e in enumerate(t.elts):
            yield from _targets(e, path + (i,))
    elif isinstance(t, ast.Starred):
        yield from _targets(t.value, path + (-1,))
    else:
        yield t, path


def definitions(func: ast.AST, comp: bool = False) -> Dict[str, List[Def]]:
    """comp=True also lists comprehension targets (they live in their own scope)."""
    cache_attr = "_vs_defs_comp" if comp else "_vs_defs"
    cached = getattr(func, cache_attr, None)
    if cached is not None:
        return cached
    defs: Dict[str, List[Def]] = {}
    try:
        setattr(func, cache_attr, defs)
    except AttributeError:
        pass

    def add(name: str, d: Def):
        defs.setdefault(name, []).append(d)

    if isinstance(func, (ast.FunctionDef, ast.AsyncFunctionDef, ast.Lambda)):
        a = func.args
        for arg in a.posonlyargs + a.args + a.kwonlyargs:
            add(arg.arg, (func, None, (), "param"))
        if a.vararg:
            add(a.vararg.arg, (func, None, (), "vararg"))
        if a.kwarg:
            add(a.kwarg.arg, (func, None, (), "kwarg"))
    for node in walk_local(func):
        if isinstance(node, ast.Assign):
            for t in node.targets:
                for tt, path in _targets(t):
                    if isinstance(tt, ast.Name):
                        add(tt.id, (node, node.value, path, "assign"))
        elif isinstance(node, ast.AnnAssign):
            if isinstance(node.target, ast.Name) and node.value is not None:
                add(node.target.id, (node, node.value, (), "assign"))
        elif isinstance(node, ast.AugAssign):
            if isinstance(node.target, ast.Name):
                add(node.target.id, (node, None, (), "augassign"))
        elif isinstance(node, (ast.For, ast.AsyncFor)):
            for tt, path in _targets(node.target):
                if isinstance(tt, ast.Name):
                    add(tt.id, (node, node.iter, path, "for"))
        elif isinstance(node, ast.comprehension):
            if comp:
                for tt, path in _targets(node.target):
                    if isinstance(tt, ast.Name):
                        add(tt.id, (node, node.iter, path, "comp"))
        elif isinstance(node, (ast.With, ast.AsyncWith)):
            for it in node.items:
                if it.optional_vars is not None:
                    for tt, path in _targets(it.optional_vars):
                        if isinstance(tt, ast.Name):
                            add(tt.id, (node, it.context_expr, path, "with"))
        elif isinstance(node, ast.ExceptHandler):
            if node.name:
                add(node.name, (node, None, (), "except"))
        elif isinstance(node, ast.NamedExpr):
            if isinstance(node.target, ast.Name):
                add(node.target.id, (node, node.value, (), "assign"))
        elif isinstance(node, (ast.FunctionDef, ast.ClassDef)):
            add(node.name, (node, None, (), "def"))
        elif isinstance(node, (ast.Import, ast.ImportFrom)):
            for al in node.names:
                add(al.asname or al.name.split(".")[0], (node, None, (), "import"))
    return defs


def param_names(func: ast.AST) -> List[str]:
    a = func.args
    out = [x.arg for x in a.posonlyargs + a.args + a.kwonlyargs]
    if a.vararg:
        out.append(a.vararg.arg)
    if a.kwarg:
        out.append(a.kwarg.arg)
    return out


def single_value(defs: Dict[str, List[Def]], name: str) -> Optional[ast.AST]:
    """The value expression if `name` has exactly one plain definition."""
    ds = defs.get(name, [])
    if len(ds) == 1 and ds[0][3] == "assign" and ds[0][2] == () and ds[0][1] is not None:
        return ds[0][1]
    return None


def resolve(defs: Dict[str, List[Def]], expr: ast.AST, depth: int = 6) -> ast.AST:
    """Follow single plain assignments of local names."""
    cur = expr
    for _ in range(depth):
        if isinstance(cur, ast.Name):
            v = single_value(defs, cur.id)
            if v is None:
                return cur
            cur = v
        else:
            return cur
    return cur


def values_of(defs: Dict[str, List[Def]], name: str) -> List[Def]:
    return defs.get(name, [])


def names_in(expr: ast.AST) -> List[str]:
    return [n.id for n in ast.walk(expr) if isinstance(n, ast.Name)]


def strip_casts(expr: ast.AST) -> ast.AST:
    """cast(T, x) -> x ; bool(x)/int(x) kept."""
    while (
        isinstance(expr, ast.Call)
        and isinstance(expr.func, ast.Name)
        and expr.func.id == "cast"
        and len(expr.args) == 2
    ):
        expr = expr.args[1]
    return expr


def _defines(node: ast.AST, name: str) -> bool:
    """node (a statement, searched without entering nested scopes) binds `name`."""
    for n in [node, *walk_local(node)]:
        if isinstance(n, ast.Name) and n.id == name and isinstance(n.ctx, (ast.Store, ast.Del)):
            # comprehension targets live in their own scope
            p = parent(n)
            while p is not None and p is not node and not isinstance(p, ast.comprehension):
                p = parent(p)
            if isinstance(p, ast.comprehension):
                continue
            return True
        if isinstance(n, ast.ExceptHandler) and n.name == name:
            return True
    return False


def reaching_value(func: ast.AST, use: ast.AST, name: str):
    """(stmt, value) of the plain assignment `name = value` that dominates `use` and is
    the closest definition on every path, or None when the reaching definition is not a
    single dominating plain assignment (flow-sensitive refinement of `definitions`)."""
    from .control import block_path

    try:
        path = block_path(func, use)
    except Exception:
        return None
    for container, field, blk, idx in reversed(path):
        for st in reversed(blk[:idx]):
            if isinstance(st, ast.Assign) and len(st.targets) == 1 and isinstance(st.targets[0], ast.Name) \
                    and st.targets[0].id == name:
                return st, st.value
            if isinstance(st, ast.AnnAssign) and isinstance(st.target, ast.Name) and st.target.id == name \
                    and st.value is not None:
                return st, st.value
            if isinstance(st, ast.Try) and not any(_defines(x, name) for x in st.orelse + st.finalbody) \
                    and not any(_defines(h, name) for h in st.handlers):
                from .control import always_leaves

                if all(always_leaves(h.body) for h in st.handlers):
                    # the try body completed normally: its last top-level plain assignment reaches
                    for inner in reversed(st.body):
                        if isinstance(inner, ast.Assign) and len(inner.targets) == 1 and isinstance(inner.targets[0], ast.Name) \
                                and inner.targets[0].id == name:
                            return inner, inner.value
                        if isinstance(inner, ast.AnnAssign) and isinstance(inner.target, ast.Name) and inner.target.id == name \
                                and inner.value is not None:
                            return inner, inner.value
                        if _defines(inner, name):
                            return None
            if _defines(st, name):
                return None
        if isinstance(container, (ast.For, ast.While)) and field == "body":
            # a definition later in the loop body reaches the use on the next iteration
            if any(_defines(st, name) for st in blk[idx:] if st is not blk[idx]) or _defines_outside_use(blk[idx], use, name):
                return None
            if isinstance(container, ast.For) and any(
                    isinstance(t, ast.Name) and t.id == name for t, _ in _targets(container.target)):
                return None
        if isinstance(container, (ast.With,)):
            for it in container.items:
                if it.optional_vars is not None and any(
                        isinstance(t, ast.Name) and t.id == name for t, _ in _targets(it.optional_vars)):
                    return None
        if isinstance(container, ast.ExceptHandler) and container.name == name:
            return None
    return None


def _defines_outside_use(stmt: ast.AST, use: ast.AST, name: str) -> bool:
    """stmt (which contains use) also binds name somewhere (conservative)."""
    if isinstance(stmt, (ast.Assign, ast.AnnAssign, ast.AugAssign, ast.Expr, ast.Return)):
        # a simple statement that both uses and binds (x = f(x)): the binding happens
        # after the use is evaluated, and it is found as a preceding definition elsewhere
        return False
    return _defines(stmt, name)


def clone(node):
    """A copy of an expression / statement made of its syntax only: the fields of the grammar
    and the positions.  (copy.deepcopy would follow the `_parent` links the program index
    adds and copy the whole module for every expression.)"""
    if isinstance(node, list):
        return [clone(x) for x in node]
    if not isinstance(node, ast.AST):
        return node
    new = node.__class__()
    for name, val in ast.iter_fields(node):
        setattr(new, name, clone(val))
    for a in ("lineno", "col_offset", "end_lineno", "end_col_offset"):
        if hasattr(node, a):
            setattr(new, a, getattr(node, a))
    return new


def expanded(func: ast.AST, expr: ast.AST, depth: int = 4) -> ast.AST:
    """A copy of expr in which every local that has exactly one, plain, definition in func is
    replaced by (a copy of) the expression it was bound to -- what the expression says once
    single-definition temporaries are read through."""
    defs = definitions(func)

    class R(ast.NodeTransformer):
        def __init__(self, d):
            self.d = d

        def visit_Name(self, node):
            if isinstance(node.ctx, ast.Load) and self.d > 0:
                v = single_value(defs, node.id)
                if v is None:
                    # `a, b = V` (the only binding of b): b is V[1], or the element when V is a display
                    ds = defs.get(node.id, [])
                    if len(ds) == 1 and ds[0][3] == "assign" and ds[0][1] is not None and len(ds[0][2]) == 1 and ds[0][2][0] >= 0:
                        i = ds[0][2][0]
                        val = ds[0][1]
                        if isinstance(val, (ast.Tuple, ast.List)) and i < len(val.elts) and not any(isinstance(e, ast.Starred) for e in val.elts):
                            v = val.elts[i]
                        elif isinstance(val, (ast.Name, ast.Attribute, ast.Subscript)):
                            v = ast.Subscript(value=clone(val), slice=ast.Constant(value=i), ctx=ast.Load())
                if v is not None and not any(isinstance(x, ast.Name) and x.id == node.id for x in ast.walk(v)):
                    return R(self.d - 1).visit(clone(v))
            return node

    return R(depth).visit(clone(expr))


def sorted_tuple_of(func: ast.AST, ret: ast.Return):
    """If `ret` returns a sorted tuple of some list, the name / text of that list: accepts
    `tuple(sorted(L))` and `L.sort()` (unconditional, after the last other change of L's
    order) followed by `tuple(L)`.  None otherwise."""
    from .control import dominates, stmt_of
    from .program import norm as _norm

    v = ret.value
    if not (isinstance(v, ast.Call) and _norm(v.func) == "tuple" and len(v.args) == 1):
        return None
    a = v.args[0]
    if isinstance(a, ast.Call) and _norm(a.func) == "sorted" and len(a.args) == 1 and not [k for k in a.keywords if k.arg not in ("key",) or _norm(k.value) != "None"]:
        return _norm(a.args[0])
    if isinstance(a, ast.Name):
        sorts = [c for c in walk_local(func) if isinstance(c, ast.Call) and isinstance(c.func, ast.Attribute) and c.func.attr == "sort"
                 and isinstance(c.func.value, ast.Name) and c.func.value.id == a.id and not c.args and not c.keywords]
        for s in sorts:
            if dominates(func, stmt_of(s), ret):
                # nothing reorders / extends the list between the sort and the return
                later = [c for c in walk_local(func) if isinstance(c, ast.Call) and isinstance(c.func, ast.Attribute) and isinstance(c.func.value, ast.Name)
                         and c.func.value.id == a.id and c.func.attr in ("append", "extend", "insert", "reverse", "pop", "remove") and c.lineno > s.lineno]
                if not later:
                    return a.id
    return None
