"""
Reporting: one Context per (property, tier) run.  Rules register
 * instances   -- what a rule matched (for the floors and the evidence samples)
 * obligations -- each thing a rule had to establish, discharged or violated
 * violations  -- keyed by (rule, qualified function, normalised construct), never by line

Exit protocol (see DESIGN.md 2.2):  0 OK / only known findings ; 1 VIOLATION ;
2 ANALYSIS-ERROR (anchor vanished, floor not met, construct not understood, crash).
"""
from __future__ import annotations

import ast
import hashlib
import json
import os
import sys
import time
from typing import Any, Dict, List, Optional

from .program import AnalysisError, Program, norm, qualname_of

VERIF = os.path.dirname(os.path.dirname(os.path.dirname(os.path.abspath(__file__))))
EVIDENCE_DIR = os.path.join(VERIF, "evidence")
REPLAY_DIR = os.path.join(VERIF, "replays")
KNOWN_FILE = os.path.join(VERIF, "known_findings.json")


class Violation:
    def __init__(self, rule: str, function: str, construct: str, loc: str, msg: str, facts=None):
        self.rule = rule
        self.function = function
        self.construct = construct
        self.loc = loc
        self.msg = msg
        self.facts = facts or {}

    @property
    def key(self):
        return (self.rule, self.function, self.construct)

    def as_dict(self):
        return {
            "rule": self.rule,
            "function": self.function,
            "construct": self.construct,
            "loc": self.loc,
            "msg": self.msg,
            "facts": self.facts,
        }


class Context:
    def __init__(self, prop: str, tier: str, program: Program, quiet: bool = False):
        self.prop = prop
        self.tier = tier
        self.P = program
        self.quiet = quiet
        self.t0 = time.time()
        self.instances: Dict[str, List[str]] = {}
        self.obligations = 0
        self.discharged = 0
        self.violations: List[Violation] = []
        self.notes: List[str] = []
        self.assumptions: List[str] = []
        self.functions_analysed: set = set()
        self.extra: Dict[str, Any] = {}
        self.samples: List[Any] = []
        self.lines: List[str] = []
        self.shortfalls: List[str] = []

    # ------------------------------------------------------------ printing
    def out(self, line: str) -> None:
        self.lines.append(line)
        if not self.quiet:
            print(line)

    # ------------------------------------------------------------- recording
    def analysed(self, func) -> None:
        """Record that a function (FuncInfo or ast node) was inspected by a rule."""
        name = getattr(func, "qualname", None) or qualname_of(func)
        self.functions_analysed.add(name)

    def instance(self, rule: str, desc: str) -> None:
        self.instances.setdefault(rule, []).append(desc)

    def ok(self, rule: str, desc: str) -> None:
        """An obligation of `rule` was established."""
        self.obligations += 1
        self.discharged += 1
        self.instance(rule, desc)

    def violation(self, rule: str, node: Optional[ast.AST], msg: str, *, function: Optional[str] = None,
                  construct: Optional[str] = None, facts=None) -> None:
        self.obligations += 1
        fn = function or (qualname_of(node) if node is not None else "?")
        cons = construct or (norm(node) if node is not None else "?")
        if len(cons) > 300:
            cons = cons[:300] + "..."
        loc = self.P.loc(node) if node is not None else "?"
        v = Violation(rule, fn, cons, loc, msg, facts)
        if v.key in {x.key for x in self.violations}:
            self.obligations -= 1
            return
        self.violations.append(v)
        self.instance(rule, f"VIOLATED {fn}: {cons}")

    def note(self, text: str) -> None:
        self.notes.append(text)

    def assume(self, text: str) -> None:
        if text not in self.assumptions:
            self.assumptions.append(text)

    def floor(self, rule: str, minimum: int, what: str = "instances") -> None:
        n = len(self.instances.get(rule, []))
        if n < minimum:
            # decided in finish(): with definite violations present the verdict stands
            # (code was removed, and its absence was reported); otherwise analysis error
            self.shortfalls.append(
                f"rule {rule}: matched {n} {what}, floor is {minimum} -- the rule no "
                f"longer sees the code it was written for"
            )

    # ---------------------------------------------------------------- finish
    def finish(self) -> int:
        known = load_known()
        fresh: List[Violation] = []
        exit_code = 0
        for rule in sorted(self.instances):
            items = self.instances[rule]
            self.out(f"ANALYSED rule={rule} instances={len(items)}")
        self.out(
            f"ANALYSED property={self.prop} tier={self.tier} files={len(self.P.files)} "
            f"functions={len(self.functions_analysed)} obligations={self.obligations} "
            f"discharged={self.discharged}"
        )
        for v in self.violations:
            k = match_known(known, self.prop, v)
            self.out(f"{v.loc} rule={v.rule} instance={v.function} :: {v.construct} : {v.msg}")
            if k is not None:
                self.out(f"KNOWN-FINDING: property={self.prop} {k.get('what', v.msg)}")
            else:
                fresh.append(v)
        replay_path = None
        if self.shortfalls and not fresh:
            for sf in self.shortfalls:
                self.out(f"ANALYSIS-ERROR property={self.prop} {sf}")
            self.write_evidence(0, len(self.violations))
            return 2
        for sf in self.shortfalls:
            self.out(f"NOTE floor shortfall next to reported violations: {sf}")
        if fresh:
            os.makedirs(REPLAY_DIR, exist_ok=True)
            dig = hashlib.sha256(
                json.dumps([list(v.key) for v in fresh], sort_keys=True).encode()
            ).hexdigest()[:12]
            replay_path = os.path.join(REPLAY_DIR, f"{self.prop}-{dig}.json")
            with open(replay_path, "w") as f:
                json.dump(
                    {
                        "property": self.prop,
                        "tier": self.tier,
                        "repo": self.P.root,
                        "violations": [v.as_dict() for v in fresh],
                    },
                    f,
                    indent=1,
                )
            self.out(f"VIOLATION property={self.prop} replay={replay_path}")
            exit_code = 1
        else:
            self.out(f"OK property={self.prop}")
        self.write_evidence(len(fresh), len(self.violations) - len(fresh))
        return exit_code

    def write_evidence(self, n_fresh: int, n_known: int) -> None:
        if os.environ.get("VSTATIC_NO_EVIDENCE") or self.P.root != "/repo" or self.P.overlay:
            # development runs against scratch trees never touch the committed evidence
            return
        os.makedirs(EVIDENCE_DIR, exist_ok=True)
        samples: List[Any] = list(self.samples)
        for rule in sorted(self.instances):
            for d in self.instances[rule][:6]:
                samples.append({"rule": rule, "instance": d})
        distinct = len({(r, d) for r, ds in self.instances.items() for d in ds})
        cov = {
            "explanation": self.extra.get(
                "explanation",
                "static analysis (ast) of /repo's working tree: repository-specific "
                "structural rules, each a necessary clause of the property",
            ),
            "evaluations": max(self.obligations, 1),
            "distinct_nontrivial": distinct,
            "rule": "one evaluation per obligation (rule instance at a concrete code "
            "site); distinct = distinct (rule, site) pairs; non-trivial = the rule "
            "matched real code in /repo (fixtures are not counted)",
            "samples": samples[:60] or ["none"],
            "obligations": self.obligations,
            "discharged": self.discharged,
            "files_analysed": len(self.P.files),
            "functions_analysed": sorted(self.functions_analysed),
            "rule_instances": {r: len(v) for r, v in sorted(self.instances.items())},
            "repo_digest": self.P.digest(),
            "known_findings_reported": n_known,
            "notes": self.notes,
        }
        for k, v in self.extra.items():
            if k != "explanation":
                cov[k] = v
        ev = {
            "property_id": self.prop,
            "tier": self.tier,
            "seed": int(os.environ.get("VERIF_SEED", "0") or 0),
            "level": "other",
            "coverage": cov,
            "assumptions": self.assumptions,
            "wall_s": round(time.time() - self.t0, 3),
            "violations": n_fresh,
        }
        path = os.path.join(EVIDENCE_DIR, f"{self.prop}.json")
        tmp = path + ".tmp"
        with open(tmp, "w") as f:
            json.dump(ev, f, indent=1, sort_keys=False)
        os.replace(tmp, path)


def load_known() -> List[dict]:
    if not os.path.exists(KNOWN_FILE):
        return []
    with open(KNOWN_FILE) as f:
        data = json.load(f)
    return [e for e in data.get("findings", []) if e.get("status") == "open"]


def match_known(known: List[dict], prop: str, v: Violation) -> Optional[dict]:
    for e in known:
        if (
            e.get("property") == prop
            and e.get("rule") == v.rule
            and e.get("function") == v.function
            and e.get("construct") == v.construct
        ):
            return e
    return None
