"""
A small structural pattern matcher over the ast, so that rules never depend on the names of
local variables.  Patterns are Python source in which

  _M_x   matches any Name (bound consistently: the same metavariable must match the same id)
  _E_x   matches any expression (bound consistently by normalised text)
  _A_    matches any expression, unbound (wildcard)

Everything else must match structurally (node types, operators, constants, attribute
names, plain names such as `self`, parameters, globals).  Keyword arguments are matched as
a set; positional arguments and sequence elements in order.
"""
from __future__ import annotations

import ast
from functools import lru_cache
from typing import Dict, Iterator, List, Optional, Tuple

from .program import norm, walk_local

Binds = Dict[str, str]


@lru_cache(maxsize=None)
def compile_pattern(src: str) -> ast.AST:
    tree = ast.parse(src.strip())
    if len(tree.body) != 1:
        raise ValueError(f"pattern must be one statement or expression: {src}")
    st = tree.body[0]
    if isinstance(st, ast.Expr):
        return st.value
    return st


def match(pat, node, binds: Optional[Binds] = None) -> Optional[Binds]:
    b: Binds = dict(binds or {})
    return b if _m(pat, node, b) else None


def _m(p, n, b: Binds) -> bool:
    if isinstance(p, ast.Name):
        if p.id == "_A_":
            return isinstance(n, ast.AST)
        if p.id.startswith("_M_"):
            if not isinstance(n, ast.Name):
                return False
            if p.id in b:
                return b[p.id] == n.id
            b[p.id] = n.id
            return True
        if p.id.startswith("_E_"):
            if not isinstance(n, ast.AST):
                return False
            t = norm(n)
            if p.id in b:
                return b[p.id] == t
            b[p.id] = t
            return True
        return isinstance(n, ast.Name) and n.id == p.id
    if isinstance(p, ast.Assign) and isinstance(n, ast.AnnAssign) and len(p.targets) == 1 and n.value is not None:
        # an annotated assignment is the same binding
        return _m(p.targets[0], n.target, b) and _m(p.value, n.value, b)
    if type(p) is not type(n):
        return False
    if isinstance(p, ast.Constant):
        return p.value == n.value and type(p.value) is type(n.value)
    if isinstance(p, ast.Call):
        if not _m(p.func, n.func, b) or len(p.args) != len(n.args):
            return False
        if not all(_m(x, y, b) for x, y in zip(p.args, n.args)):
            return False
        pk = {k.arg: k.value for k in p.keywords}
        nk = {k.arg: k.value for k in n.keywords}
        if set(pk) != set(nk):
            return False
        return all(_m(pk[k], nk[k], b) for k in pk)
    for field in p._fields:
        if field in ("ctx", "type_comment", "lineno", "col_offset", "end_lineno", "end_col_offset", "annotation", "simple", "type_params"):
            continue
        pv, nv = getattr(p, field, None), getattr(n, field, None)
        if isinstance(pv, list):
            if not isinstance(nv, list):
                return False
            if field in ("body", "orelse", "finalbody") and pv and isinstance(pv[0], ast.stmt):
                # statements of a block: the pattern's statements must occur in order; extra
                # statements in between (logging, pass, bookkeeping) do not matter
                if not _subseq(pv, nv, b):
                    return False
                continue
            if len(pv) != len(nv):
                return False
            for x, y in zip(pv, nv):
                if isinstance(x, ast.AST):
                    if not _m(x, y, b):
                        return False
                elif x != y:
                    return False
        elif isinstance(pv, ast.AST):
            if not isinstance(nv, ast.AST) or not _m(pv, nv, b):
                return False
        elif pv != nv:
            # AnnAssign vs Assign etc. are distinct types already; plain field mismatch
            return False
    return True


def _subseq(pats, nodes, b: Binds) -> bool:
    """Match pats as an ordered subsequence of nodes (backtracking over bindings)."""
    if not pats:
        return True
    if not nodes and pats:
        return False
    for i, n in enumerate(nodes):
        trial = dict(b)
        if _m(pats[0], n, trial) and _subseq(pats[1:], nodes[i + 1:], trial):
            b.clear()
            b.update(trial)
            return True
    return False


def find_all(root: ast.AST, src: str, binds: Optional[Binds] = None, local: bool = True) -> List[Tuple[ast.AST, Binds]]:
    pat = compile_pattern(src)
    out = []
    it = walk_local(root) if local else ast.walk(root)
    for n in it:
        r = match(pat, n, binds)
        if r is not None:
            out.append((n, r))
    return out


def find_one(root: ast.AST, src: str, binds: Optional[Binds] = None) -> Optional[Tuple[ast.AST, Binds]]:
    r = find_all(root, src, binds)
    return r[0] if r else None


def has(root: ast.AST, src: str, binds: Optional[Binds] = None) -> bool:
    return bool(find_all(root, src, binds))


def assign_value(st: ast.AST) -> Tuple[Optional[ast.AST], Optional[ast.AST]]:
    """(target, value) of Assign / AnnAssign (single target)."""
    if isinstance(st, ast.Assign) and len(st.targets) == 1:
        return st.targets[0], st.value
    if isinstance(st, ast.AnnAssign):
        return st.target, st.value
    return None, None


def find_flow(root: ast.AST, value_src: str, use_src: str, var: str, binds: Optional[Binds] = None) -> List[Tuple[ast.AST, Binds]]:
    """`use_src` mentions the name metavariable `var`.  Matches the use with the value written
    in place (the canonical form folds single-use locals) or `var = value` somewhere in root
    together with the use of that very name."""
    inline = use_src.replace(var, "(" + value_src.strip() + ")")
    r = find_all(root, inline, binds)
    if r:
        return r
    out: List[Tuple[ast.AST, Binds]] = []
    for _n, b in find_all(root, f"{var} = {value_src.strip()}", binds):
        out += find_all(root, use_src, b)
    return out
