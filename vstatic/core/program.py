"""
Program model: parses /repo's *current* working tree with ``ast`` (never imports or
runs it) and offers the repository-specific lookups the rules need: class index with a
linearised MRO, method lookup, attribute-kind table, import resolution, parent links.

Everything that a rule names (class, method, attribute) is looked up through the
``need_*`` accessors, which raise ``AnchorError`` when the anchor has vanished -- the
runner turns that into ``ANALYSIS-ERROR`` / exit 2, never into a pass.
"""
from __future__ import annotations

import ast
import hashlib
import os
from typing import Dict, Iterator, List, Optional, Sequence, Set, Tuple

PKG = "comb_spec_searcher"
MIN_PACKAGE_MODULES = 29


class AnalysisError(Exception):
    """The analysis met something it does not understand on a slice it needs."""


class AnchorError(AnalysisError):
    """An anchor (class / method / attribute) named by a rule has vanished."""


def repo_root() -> str:
    return os.environ.get("VSTATIC_REPO", "/repo")


class FuncInfo:
    def __init__(self, node, module: "ModuleInfo", cls: Optional["ClassInfo"]):
        self.node = node
        self.module = module
        self.cls = cls
        self.name = node.name

    @property
    def qualname(self) -> str:
        if self.cls is not None:
            return f"{self.cls.name}.{self.name}"
        return f"{self.module.short}.{self.name}"

    @property
    def decorators(self) -> List[str]:
        return [unparse(d) for d in self.node.decorator_list]

    def is_property(self) -> bool:
        return any(d == "property" or d.endswith(".setter") for d in self.decorators)

    def is_static(self) -> bool:
        return "staticmethod" in self.decorators

    def is_classmethod(self) -> bool:
        return "classmethod" in self.decorators

    def params(self) -> List[str]:
        a = self.node.args
        names = [x.arg for x in a.posonlyargs + a.args]
        return names

    def __repr__(self):
        return f"<Func {self.qualname}>"


class ClassInfo:
    def __init__(self, node: ast.ClassDef, module: "ModuleInfo"):
        self.node = node
        self.module = module
        self.name = node.name
        self.base_names: List[str] = []
        for b in node.bases:
            base = b
            if isinstance(base, ast.Subscript):
                base = base.value
            if isinstance(base, ast.Attribute):
                self.base_names.append(base.attr)
            elif isinstance(base, ast.Name):
                self.base_names.append(base.id)
        self.methods: Dict[str, FuncInfo] = {}
        self.class_attrs: Dict[str, ast.AST] = {}
        for st in node.body:
            if isinstance(st, (ast.FunctionDef, ast.AsyncFunctionDef)):
                # keep the *last* definition (property + setter pairs keep the getter
                # under its name unless overwritten by a setter; getter comes first)
                if st.name in self.methods and any(
                    unparse(d).endswith(".setter") for d in st.decorator_list
                ):
                    continue
                self.methods[st.name] = FuncInfo(st, module, self)
            elif isinstance(st, ast.Assign):
                for t in st.targets:
                    if isinstance(t, ast.Name):
                        self.class_attrs[t.id] = st.value
            elif isinstance(st, ast.AnnAssign) and isinstance(st.target, ast.Name):
                if st.value is not None:
                    self.class_attrs[st.target.id] = st.value

    def __repr__(self):
        return f"<Class {self.name}>"


class ModuleInfo:
    def __init__(self, name: str, path: str, src: str, tree: Optional[ast.AST] = None, props: Optional[Set[str]] = None):
        self.name = name  # dotted
        self.short = name[len(PKG) + 1 :] if name.startswith(PKG + ".") else name
        self.path = path
        self.src = src
        self.tree = tree if tree is not None else ast.parse(src, filename=path)
        self.folded = 0
        if props is not None and os.environ.get("VSTATIC_NO_CANON") != "1":
            from .canon import canonicalise

            self.folded = canonicalise(self.tree, props)
        self.functions: Dict[str, FuncInfo] = {}
        self.classes: Dict[str, ClassInfo] = {}
        self.imports: Dict[str, Tuple[str, Optional[str]]] = {}
        _link_parents(self.tree)
        for node in ast.walk(self.tree):
            node._module = self  # type: ignore[attr-defined]
        for st in self.tree.body:
            self._index_stmt(st)

    def _index_stmt(self, st):
        if isinstance(st, (ast.FunctionDef, ast.AsyncFunctionDef)):
            self.functions[st.name] = FuncInfo(st, self, None)
        elif isinstance(st, ast.ClassDef):
            self.classes[st.name] = ClassInfo(st, self)
        elif isinstance(st, ast.Import):
            for a in st.names:
                self.imports[a.asname or a.name.split(".")[0]] = (a.name, None)
        elif isinstance(st, ast.ImportFrom):
            mod = st.module or ""
            if st.level:
                base = self.name.split(".")
                # a module's package is everything but its last component
                pkg_parts = base[: len(base) - st.level] if not self.path.endswith(
                    "__init__.py"
                ) else base[: len(base) - st.level + 1]
                mod = ".".join(pkg_parts + ([mod] if mod else []))
            for a in st.names:
                self.imports[a.asname or a.name] = (mod, a.name)
        elif isinstance(st, ast.If):
            # `if TYPE_CHECKING:` / platform blocks: index imports inside
            for sub in st.body + st.orelse:
                self._index_stmt(sub)


def _link_parents(tree: ast.AST) -> None:
    tree._parent = None  # type: ignore[attr-defined]
    for node in ast.walk(tree):
        for child in ast.iter_child_nodes(node):
            child._parent = node  # type: ignore[attr-defined]


def unparse(node: ast.AST) -> str:
    try:
        return ast.unparse(node)
    except Exception:  # pragma: no cover
        return ast.dump(node)


def norm(node: ast.AST) -> str:
    """Normalised text of a construct (used in finding keys): unparse collapses
    formatting, comments and redundant parentheses."""
    return " ".join(unparse(node).split())


class Program:
    def __init__(self, root: Optional[str] = None, overlay: Optional[Dict[str, str]] = None):
        """overlay maps repo-relative paths to replacement source text (used by the
        seeded-variant self-test, which never writes variants to disk)."""
        self.root = root or repo_root()
        self.overlay = overlay or {}
        self.modules: Dict[str, ModuleInfo] = {}
        self.classes: Dict[str, ClassInfo] = {}
        self.files: List[str] = []
        pkg_dir = os.path.join(self.root, PKG)
        if not os.path.isdir(pkg_dir):
            raise AnchorError(f"package directory {pkg_dir} not found")
        pending = []
        for dirpath, dirnames, filenames in os.walk(pkg_dir):
            dirnames[:] = sorted(d for d in dirnames if d != "__pycache__")
            for fn in sorted(filenames):
                if not fn.endswith(".py"):
                    continue
                path = os.path.join(dirpath, fn)
                rel = os.path.relpath(path, self.root)
                modname = rel[:-3].replace(os.sep, ".")
                if modname.endswith(".__init__"):
                    modname = modname[: -len(".__init__")]
                if rel in self.overlay:
                    src = self.overlay[rel]
                else:
                    with open(path, encoding="utf-8") as f:
                        src = f.read()
                try:
                    tree = ast.parse(src, filename=path)
                except SyntaxError as e:
                    raise AnalysisError(f"cannot parse {rel}: {e}") from e
                pending.append((modname, path, rel, src, tree))
        from .canon import property_names
        from .inline import expand_new_helpers, load_baseline

        self.helpers_expanded = 0
        if os.environ.get("VSTATIC_NO_INLINE") != "1":
            self.helpers_expanded = expand_new_helpers({m: t for m, _p, _r, _s, t in pending}, load_baseline())
        self.property_names = property_names([t for *_x, t in pending])
        from . import canon as _canon

        _canon.METHOD_NAMES = _canon.method_names([t for *_x, t in pending])
        _canon.METHOD_SIGNATURES = _canon.method_signatures([t for *_x, t in pending])
        _canon.INIT_ONLY_ATTRS = _canon.init_only_attrs([t for *_x, t in pending])
        _canon.PLAIN_CONTAINER_ATTRS = _canon.plain_container_attrs([t for *_x, t in pending], _canon.INIT_ONLY_ATTRS)
        for modname, path, rel, src, tree in pending:
            self.modules[modname] = ModuleInfo(modname, path, src, tree=tree, props=self.property_names)
            self.files.append(rel)
        if len(self.modules) < MIN_PACKAGE_MODULES:
            raise AnalysisError(
                f"only {len(self.modules)} package modules parsed, "
                f"expected at least {MIN_PACKAGE_MODULES}"
            )
        for mi in self.modules.values():
            for c in mi.classes.values():
                if c.name in self.classes:
                    raise AnalysisError(f"duplicate class name {c.name}")
                self.classes[c.name] = c
        self._mro_cache: Dict[str, List[ClassInfo]] = {}
        self._attr_cache: Dict[str, Dict[str, List[ast.AST]]] = {}

    # ------------------------------------------------------------------ digest
    def digest(self) -> str:
        h = hashlib.sha256()
        for name in sorted(self.modules):
            h.update(name.encode())
            h.update(self.modules[name].src.encode())
        return h.hexdigest()[:16]

    # ----------------------------------------------------------------- lookups
    def module(self, short: str) -> ModuleInfo:
        name = short if short.startswith(PKG) else f"{PKG}.{short}"
        if name not in self.modules:
            raise AnchorError(f"module {name} not found")
        return self.modules[name]

    def need_class(self, name: str) -> ClassInfo:
        if name not in self.classes:
            raise AnchorError(f"class {name} not found in package")
        return self.classes[name]

    def mro(self, cls: ClassInfo) -> List[ClassInfo]:
        if cls.name in self._mro_cache:
            return self._mro_cache[cls.name]
        seqs: List[List[ClassInfo]] = []
        bases = [self.classes[b] for b in cls.base_names if b in self.classes]
        for b in bases:
            seqs.append(list(self.mro(b)))
        seqs.append(list(bases))
        res = [cls]
        seqs = [s for s in seqs if s]
        while seqs:
            for s in seqs:
                cand = s[0]
                if not any(cand in t[1:] for t in seqs):
                    break
            else:
                raise AnalysisError(f"inconsistent MRO for {cls.name}")
            res.append(cand)
            seqs = [[x for x in s if x is not cand] for s in seqs]
            seqs = [s for s in seqs if s]
        self._mro_cache[cls.name] = res
        return res

    def subclasses(self, cls: ClassInfo, strict: bool = False) -> List[ClassInfo]:
        out = []
        for c in self.classes.values():
            if cls in self.mro(c) and (not strict or c is not cls):
                out.append(c)
        return out

    def is_subclass(self, cls: ClassInfo, base: str) -> bool:
        return any(c.name == base for c in self.mro(cls))

    def find_method(self, cls: ClassInfo, name: str) -> Optional[FuncInfo]:
        for c in self.mro(cls):
            if name in c.methods:
                return c.methods[name]
        return None

    def need_method(self, clsname: str, name: str, own: bool = False) -> FuncInfo:
        cls = self.need_class(clsname)
        if own:
            if name not in cls.methods:
                raise AnchorError(f"method {clsname}.{name} not found (own)")
            return cls.methods[name]
        m = self.find_method(cls, name)
        if m is None:
            raise AnchorError(f"method {clsname}.{name} not found")
        return m

    def need_function(self, module_short: str, name: str) -> FuncInfo:
        mi = self.module(module_short)
        if name not in mi.functions:
            raise AnchorError(f"function {module_short}.{name} not found")
        return mi.functions[name]

    def super_method(self, cls: ClassInfo, name: str) -> Optional[FuncInfo]:
        for c in self.mro(cls)[1:]:
            if name in c.methods:
                return c.methods[name]
        return None

    def all_functions(self) -> Iterator[FuncInfo]:
        for mi in self.modules.values():
            yield from mi.functions.values()
            for c in mi.classes.values():
                yield from c.methods.values()

    # --------------------------------------------------------- attribute table
    def attr_assignments(self, cls: ClassInfo) -> Dict[str, List[ast.AST]]:
        """All statements ``self.<attr> = / : T = / op=`` in the class and its bases."""
        if cls.name in self._attr_cache:
            return self._attr_cache[cls.name]
        res: Dict[str, List[ast.AST]] = {}
        for c in self.mro(cls):
            for m in c.methods.values():
                for node in walk_local(m.node):
                    tgt = None
                    if isinstance(node, ast.Assign):
                        for t in node.targets:
                            for tt in _flatten_targets(t):
                                if _is_self_attr(tt):
                                    res.setdefault(tt.attr, []).append(node)
                    elif isinstance(node, (ast.AnnAssign, ast.AugAssign)):
                        tgt = node.target
                        if _is_self_attr(tgt):
                            res.setdefault(tgt.attr, []).append(node)
        self._attr_cache[cls.name] = res
        return res

    def relpath(self, node: ast.AST) -> str:
        mi = getattr(node, "_module", None)
        if mi is None:
            return "?"
        return os.path.relpath(mi.path, self.root)

    def loc(self, node: ast.AST) -> str:
        return f"{self.relpath(node)}:{getattr(node, 'lineno', 0)}"


def _flatten_targets(t: ast.AST) -> Iterator[ast.AST]:
    if isinstance(t, (ast.Tuple, ast.List)):
        for e in t.elts:
            yield from _flatten_targets(e)
    elif isinstance(t, ast.Starred):
        yield from _flatten_targets(t.value)
    else:
        yield t


def _is_self_attr(node: ast.AST) -> bool:
    return (
        isinstance(node, ast.Attribute)
        and isinstance(node.value, ast.Name)
        and node.value.id == "self"
    )


def is_self_attr(node: ast.AST, attr: Optional[str] = None) -> bool:
    return _is_self_attr(node) and (attr is None or node.attr == attr)  # type: ignore


def walk_local(func: ast.AST) -> Iterator[ast.AST]:
    """Walk a function body without descending into nested function / class /
    lambda definitions (their bodies run at another time)."""
    stack = list(ast.iter_child_nodes(func))
    while stack:
        node = stack.pop()
        yield node
        if isinstance(
            node, (ast.FunctionDef, ast.AsyncFunctionDef, ast.ClassDef, ast.Lambda)
        ):
            continue
        stack.extend(ast.iter_child_nodes(node))


def walk_all(func: ast.AST) -> Iterator[ast.AST]:
    yield from ast.walk(func)


def parent(node: ast.AST) -> Optional[ast.AST]:
    return getattr(node, "_parent", None)


def ancestors(node: ast.AST) -> Iterator[ast.AST]:
    p = parent(node)
    while p is not None:
        yield p
        p = parent(p)


def enclosing_function(node: ast.AST) -> Optional[ast.AST]:
    for a in ancestors(node):
        if isinstance(a, (ast.FunctionDef, ast.AsyncFunctionDef, ast.Lambda)):
            return a
    return None


def enclosing_class(node: ast.AST) -> Optional[ast.ClassDef]:
    for a in ancestors(node):
        if isinstance(a, ast.ClassDef):
            return a
    return None


def qualname_of(node: ast.AST) -> str:
    """Qualified name of the function (Class.method or module.func) enclosing node."""
    parts: List[str] = []
    cur: Optional[ast.AST] = node
    if isinstance(node, (ast.FunctionDef, ast.AsyncFunctionDef, ast.ClassDef)):
        parts.append(node.name)
    for a in ancestors(node):
        if isinstance(a, (ast.FunctionDef, ast.AsyncFunctionDef, ast.ClassDef)):
            parts.append(a.name)
    if not parts:
        mi = getattr(node, "_module", None)
        return f"<module {mi.short if mi else '?'}>"
    parts.reverse()
    if not any(isinstance(a, ast.ClassDef) for a in [node, *ancestors(node)]):
        mi = getattr(node, "_module", None)
        if mi is not None:
            parts.insert(0, mi.short)
    return ".".join(parts)


def call_name(call: ast.Call) -> str:
    """Dotted text of the callee expression."""
    return unparse(call.func)


def calls_in(func: ast.AST, local: bool = True) -> Iterator[ast.Call]:
    it = walk_local(func) if local else ast.walk(func)
    for n in it:
        if isinstance(n, ast.Call):
            yield n


def attr_chain(node: ast.AST) -> Optional[Tuple[str, ...]]:
    """('self','ruledb','equivdb') for self.ruledb.equivdb ; None if not a pure chain."""
    parts: List[str] = []
    while isinstance(node, ast.Attribute):
        parts.append(node.attr)
        node = node.value
    if isinstance(node, ast.Name):
        parts.append(node.id)
        return tuple(reversed(parts))
    return None
