"""
Reading through helpers that are newer than the rules.

The rules name the functions they are about (anchors).  A refactoring that moves part of such
a function into a *new* private helper hides that part from every rule written against the
function.  Before the canonical form is computed, calls of private helpers whose name is not
in `baseline_names.json` (the functions that existed when the rules were written) are
expanded in place, so the rules keep seeing the whole step:

    x = self._new_helper(a, b)        p__i1 = a ; q__i1 = b ; <body, locals renamed> ; x = <returned expr>

Only helpers of a simple shape are expanded: no generator, no recursion, plain parameters,
straight-line or branching body whose only `return` (if any) is its last statement; only at
call sites that are a whole simple statement or are evaluated first and exactly once in one
(the same condition the canonical folding uses).  On the tree the rules were written for
nothing is expanded at all.  Nodes keep their original positions, so a report cites the
helper's own lines.
"""
from __future__ import annotations

import ast
import copy
import json
import os
from typing import Dict, List, Optional, Set, Tuple

HERE = os.path.dirname(__file__)
BASELINE = os.path.join(os.path.dirname(HERE), "baseline_names.json")


def function_names(trees: Dict[str, ast.AST]) -> Set[str]:
    out: Set[str] = set()
    for mod, tree in trees.items():
        for st in tree.body:
            if isinstance(st, (ast.FunctionDef, ast.AsyncFunctionDef)):
                out.add(f"{mod}:{st.name}")
            elif isinstance(st, ast.ClassDef):
                for m in st.body:
                    if isinstance(m, (ast.FunctionDef, ast.AsyncFunctionDef)):
                        out.add(f"{mod}:{st.name}.{m.name}")
    return out


def load_baseline() -> Optional[Set[str]]:
    try:
        with open(BASELINE) as f:
            return set(json.load(f)["functions"])
    except (OSError, ValueError, KeyError):
        return None


def _simple_helper(fn: ast.FunctionDef) -> Optional[str]:
    """'expr' (ends in the only return), 'proc' (no value returned), or None."""
    if not fn.name.startswith("_") or fn.name.startswith("__"):
        return None
    decos = [ast.unparse(d) for d in fn.decorator_list]
    if any(d not in ("staticmethod",) for d in decos):
        return None
    a = fn.args
    if a.vararg or a.kwarg or a.kwonlyargs or a.posonlyargs:
        return None
    body = [s for s in fn.body if not (isinstance(s, ast.Expr) and isinstance(s.value, ast.Constant) and isinstance(s.value.value, str))]
    if not body:
        return None
    for n in ast.walk(fn):
        if isinstance(n, (ast.Yield, ast.YieldFrom, ast.Await, ast.Global, ast.Nonlocal)):
            return None
        if isinstance(n, (ast.FunctionDef, ast.AsyncFunctionDef, ast.Lambda, ast.ClassDef)) and n is not fn:
            return None
        if isinstance(n, ast.Call) and isinstance(n.func, ast.Attribute) and n.func.attr == fn.name:
            return None             # recursive
    rets = [n for n in ast.walk(fn) if isinstance(n, ast.Return)]
    valued = [r for r in rets if r.value is not None]
    if not valued:
        if any(r for r in rets):
            return None             # bare early returns: control flow we do not rebuild
        return "proc"
    if len(rets) == 1 and rets[0] is body[-1]:
        return "expr"
    return None


class _Rename(ast.NodeTransformer):
    def __init__(self, mapping: Dict[str, str]):
        self.m = mapping

    def visit_Name(self, node):
        if node.id in self.m:
            return ast.copy_location(ast.Name(id=self.m[node.id], ctx=node.ctx), node)
        return node

    def visit_ExceptHandler(self, node):
        self.generic_visit(node)
        if node.name in self.m:
            node.name = self.m[node.name]
        return node


def _locals_of(fn: ast.FunctionDef) -> Set[str]:
    out = {a.arg for a in fn.args.args}
    for n in ast.walk(fn):
        if isinstance(n, ast.Name) and isinstance(n.ctx, (ast.Store, ast.Del)):
            out.add(n.id)
        elif isinstance(n, ast.ExceptHandler) and n.name:
            out.add(n.name)
    return out


def _first_evaluated_call(st: ast.stmt, is_target) -> Optional[ast.Call]:
    """The helper call in a simple statement, if it is evaluated first and exactly once."""
    from .canon import _Order, _stmt_exprs_in_order

    if not isinstance(st, (ast.Assign, ast.AnnAssign, ast.AugAssign, ast.Expr, ast.Return)):
        return None
    exprs = _stmt_exprs_in_order(st)
    if exprs is None:
        return None
    cands = [c for e in exprs for c in ast.walk(e) if isinstance(c, ast.Call) and is_target(c)]
    if len(cands) != 1:
        return None
    call = cands[0]
    # arguments of the call must themselves contain no other helper call
    o = _Order(call, set())        # type: ignore[arg-type]
    # _Order looks for a Name `use`; emulate by marking found when reaching the call node
    found = {"v": False, "before": [], "cond": False}

    def visit(e, cond=False):
        if e is None or found["v"]:
            return
        if e is call:
            found["v"] = True
            found["cond"] = cond
            return
        if isinstance(e, (ast.Name, ast.Constant)):
            return
        if isinstance(e, (ast.Lambda, ast.ListComp, ast.SetComp, ast.DictComp, ast.GeneratorExp)):
            if any(x is call for x in ast.walk(e)):
                found["v"] = True
                found["cond"] = True
            else:
                found["before"].append(e)
            return
        if isinstance(e, ast.BoolOp):
            for i, v in enumerate(e.values):
                visit(v, cond or i > 0)
            return
        if isinstance(e, ast.IfExp):
            visit(e.test, cond)
            visit(e.body, True)
            visit(e.orelse, True)
            return
        if isinstance(e, ast.Attribute):
            if o.trivial(e):
                return
        for ch in ast.iter_child_nodes(e):
            if isinstance(ch, (ast.expr_context, ast.operator, ast.unaryop, ast.boolop, ast.cmpop)):
                continue
            visit(ch, cond)
        if not found["v"] and isinstance(e, (ast.Call, ast.Subscript, ast.BinOp, ast.Compare, ast.Attribute)):
            found["before"].append(e)

    for e in exprs:
        visit(e)
        if found["v"]:
            break
    if not found["v"] or found["cond"] or found["before"]:
        return None
    return call


def _replace_node(root: ast.AST, old: ast.AST, new: ast.AST) -> bool:
    for n in ast.walk(root):
        for field, val in ast.iter_fields(n):
            if val is old:
                setattr(n, field, new)
                return True
            if isinstance(val, list):
                for j, x in enumerate(val):
                    if x is old:
                        val[j] = new
                        return True
    return False


def _blocks(node: ast.AST):
    for field in ("body", "orelse", "finalbody"):
        b = getattr(node, field, None)
        if isinstance(b, list) and b and isinstance(b[0], ast.stmt):
            yield b
    for h in getattr(node, "handlers", []) or []:
        yield h.body


def _predicate_expr(fn: ast.FunctionDef) -> Optional[ast.expr]:
    """The single expression a side-effect-free helper computes, for helpers of the shape
        [if c1: return True]* [name = expr]* return e      ==>   c1 or ... or e
    (locals substituted; parameters only read).  None for anything else."""
    if fn.args.vararg or fn.args.kwarg or fn.args.kwonlyargs or fn.args.posonlyargs:
        return None
    if any(ast.unparse(d) not in ("staticmethod",) for d in fn.decorator_list):
        return None
    body = [s for s in fn.body if not (isinstance(s, ast.Expr) and isinstance(s.value, ast.Constant) and isinstance(s.value.value, str))]
    if not body or not isinstance(body[-1], ast.Return) or body[-1].value is None:
        return None
    for n in ast.walk(fn):
        if isinstance(n, (ast.Yield, ast.YieldFrom, ast.Await, ast.Lambda, ast.NamedExpr, ast.Global, ast.Nonlocal)) or (isinstance(n, (ast.FunctionDef, ast.ClassDef)) and n is not fn):
            return None
    tests: List[ast.expr] = []
    local: Dict[str, ast.expr] = {}

    def subst(e: ast.expr) -> ast.expr:
        class S(ast.NodeTransformer):
            def visit_Name(self, node):
                if isinstance(node.ctx, ast.Load) and node.id in local:
                    return copy.deepcopy(local[node.id])
                return node
        return S().visit(copy.deepcopy(e))

    for st in body[:-1]:
        if isinstance(st, ast.If) and not st.orelse and len(st.body) == 1 and isinstance(st.body[0], ast.Return) \
                and isinstance(st.body[0].value, ast.Constant) and st.body[0].value.value is True:
            tests.append(subst(st.test))
        elif isinstance(st, (ast.Assign, ast.AnnAssign)) and getattr(st, "value", None) is not None:
            tgt = st.targets[0] if isinstance(st, ast.Assign) and len(st.targets) == 1 else getattr(st, "target", None)
            if not isinstance(tgt, ast.Name) or tgt.id in local or tgt.id in {a.arg for a in fn.args.args}:
                return None
            local[tgt.id] = subst(st.value)
        else:
            return None
    last = subst(body[-1].value)
    if not tests:
        return last if (len(body) > 1 or isinstance(last, (ast.BoolOp, ast.Compare))) else None
    vals: List[ast.expr] = []
    for t in tests + [last]:
        if isinstance(t, ast.BoolOp) and isinstance(t.op, ast.Or):
            vals.extend(t.values)           # a or (b or c) is a or b or c
        else:
            vals.append(t)
    return ast.BoolOp(op=ast.Or(), values=vals)


def _expand_predicates(trees: Dict[str, ast.AST], baseline: Set[str]) -> int:
    """Calls of new private predicate helpers whose arguments are plain names / constants are
    replaced by the expression the helper computes (exact: nothing is evaluated twice or in
    another order that could matter)."""
    n = 0
    for mod, tree in trees.items():
        scopes: List[Tuple[Optional[ast.ClassDef], List[ast.stmt]]] = [(None, tree.body)]
        scopes += [(st, st.body) for st in tree.body if isinstance(st, ast.ClassDef)]
        preds: Dict[Tuple[Optional[str], str], Tuple[ast.FunctionDef, ast.expr]] = {}
        for cls, body in scopes:
            for st in body:
                if isinstance(st, ast.FunctionDef) and st.name.startswith("_") and not st.name.startswith("__"):
                    q = f"{mod}:{cls.name}.{st.name}" if cls is not None else f"{mod}:{st.name}"
                    if q in baseline:
                        continue
                    e = _predicate_expr(st)
                    if e is not None:
                        preds[(cls.name if cls is not None else None, st.name)] = (st, e)
        if not preds:
            continue
        for cls, body in scopes:
            for fn in [s_ for s_ in body if isinstance(s_, ast.FunctionDef)]:
                if (cls.name if cls is not None else None, fn.name) in preds:
                    continue
                for parent_ in list(ast.walk(fn)):
                    for field, val in ast.iter_fields(parent_):
                        items = val if isinstance(val, list) else [val]
                        for j, c in enumerate(items):
                            if not isinstance(c, ast.Call) or c.keywords or not all(isinstance(a, (ast.Name, ast.Constant)) for a in c.args):
                                continue
                            key = None
                            if isinstance(c.func, ast.Name) and (None, c.func.id) in preds:
                                key = (None, c.func.id)
                            elif cls is not None and isinstance(c.func, ast.Attribute) and isinstance(c.func.value, ast.Name) and c.func.value.id in ("self", "cls", cls.name) \
                                    and (cls.name, c.func.attr) in preds:
                                key = (cls.name, c.func.attr)
                            if key is None:
                                continue
                            h, e = preds[key]
                            params = [a.arg for a in h.args.args]
                            if key[0] is not None and not any(ast.unparse(d) == "staticmethod" for d in h.decorator_list):
                                params = params[1:]
                            if len(params) != len(c.args):
                                continue
                            amap = dict(zip(params, c.args))

                            class S(ast.NodeTransformer):
                                def visit_Name(self, node):
                                    if node.id in amap:
                                        return copy.deepcopy(amap[node.id])
                                    return node
                            new = S().visit(copy.deepcopy(e))
                            for x in ast.walk(new):
                                ast.copy_location(x, c)
                            if isinstance(val, list):
                                val[j] = new
                            else:
                                setattr(parent_, field, new)
                            n += 1
    return n


def expand_new_helpers(trees: Dict[str, ast.AST], baseline: Optional[Set[str]]) -> int:
    """trees: module name -> parsed tree (modified in place).  Returns the number of call
    sites expanded."""
    if baseline is None:
        return 0
    count = _expand_predicates(trees, baseline)
    serial = [0]
    for mod, tree in trees.items():
        scopes: List[Tuple[Optional[ast.ClassDef], List[ast.stmt]]] = [(None, tree.body)]
        scopes += [(st, st.body) for st in tree.body if isinstance(st, ast.ClassDef)]
        for cls, body in scopes:
            helpers: Dict[str, Tuple[ast.FunctionDef, str]] = {}
            for st in body:
                if isinstance(st, ast.FunctionDef):
                    q = f"{mod}:{cls.name}.{st.name}" if cls is not None else f"{mod}:{st.name}"
                    if q in baseline:
                        continue
                    kind = _simple_helper(st)
                    if kind is not None:
                        helpers[st.name] = (st, kind)
            if not helpers:
                continue

            def is_target(c: ast.Call) -> bool:
                f = c.func
                if c.keywords or any(isinstance(a, ast.Starred) for a in c.args):
                    return False
                if cls is not None:
                    return (isinstance(f, ast.Attribute) and f.attr in helpers and isinstance(f.value, ast.Name)
                            and f.value.id in ("self", "cls", cls.name))
                return isinstance(f, ast.Name) and f.id in helpers

            for fn in [s for s in body if isinstance(s, ast.FunctionDef) and s.name not in helpers]:
                for _round in range(3):
                    changed = False
                    holders = [fn] + [n for n in ast.walk(fn) if not isinstance(n, (ast.FunctionDef, ast.Lambda)) or n is fn]
                    for holder in holders:
                        for block in _blocks(holder):
                            i = 0
                            while i < len(block):
                                st = block[i]
                                call = _first_evaluated_call(st, is_target)
                                if call is None:
                                    i += 1
                                    continue
                                name = call.func.attr if isinstance(call.func, ast.Attribute) else call.func.id
                                h, kind = helpers[name]
                                params = [a.arg for a in h.args.args]
                                static = any(ast.unparse(d) == "staticmethod" for d in h.decorator_list)
                                if cls is not None and not static:
                                    params = params[1:]
                                if len(params) != len(call.args):
                                    i += 1
                                    continue
                                serial[0] += 1
                                suffix = f"__i{serial[0]}"
                                mapping = {x: x + suffix for x in _locals_of(h) if x not in ("self", "cls")}
                                stored = {n.id for n in ast.walk(h) if isinstance(n, ast.Name) and isinstance(n.ctx, (ast.Store, ast.Del))}
                                caller_names = {n.id for n in ast.walk(fn) if isinstance(n, ast.Name)}
                                new_stmts: List[ast.stmt] = []
                                for p, a in zip(params, call.args):
                                    if isinstance(a, ast.Name) and p not in stored and a.id not in stored:
                                        mapping[p] = a.id       # the helper only reads it: use the caller's name
                                        continue
                                    asg = ast.Assign(targets=[ast.Name(id=mapping[p], ctx=ast.Store())], value=a)
                                    ast.copy_location(asg, st)
                                    ast.fix_missing_locations(asg)
                                    new_stmts.append(asg)
                                # `x = self.helper(...)` where the helper returns one of its locals: let that local be x
                                if kind == "expr" and isinstance(st, (ast.Assign, ast.AnnAssign)) and getattr(st, "value", None) is call:
                                    tgt = st.targets[0] if isinstance(st, ast.Assign) and len(st.targets) == 1 else getattr(st, "target", None)
                                    hret = [s_ for s_ in h.body if isinstance(s_, ast.Return)][-1].value
                                    if isinstance(tgt, ast.Name) and isinstance(hret, ast.Name) and hret.id in mapping and hret.id not in params \
                                            and sum(1 for n in ast.walk(fn) if isinstance(n, ast.Name) and n.id == tgt.id and isinstance(n.ctx, ast.Store)) == 1:
                                        mapping[hret.id] = tgt.id
                                hb = [copy.deepcopy(s) for s in h.body if not (isinstance(s, ast.Expr) and isinstance(s.value, ast.Constant) and isinstance(s.value.value, str))]
                                hb = [_Rename(mapping).visit(s) for s in hb]
                                if kind == "expr":
                                    ret = hb.pop()
                                    value = ret.value
                                else:
                                    value = ast.copy_location(ast.Constant(value=None), st)
                                new_stmts.extend(hb)
                                if isinstance(st, (ast.Assign, ast.AnnAssign)) and getattr(st, "value", None) is call and isinstance(value, ast.Name) \
                                        and isinstance(st.targets[0] if isinstance(st, ast.Assign) else st.target, ast.Name) \
                                        and value.id == (st.targets[0] if isinstance(st, ast.Assign) else st.target).id:
                                    repl = new_stmts            # `x = x`: the body already leaves the value in x
                                elif isinstance(st, ast.Expr) and st.value is call:
                                    repl: List[ast.stmt] = new_stmts if kind == "proc" else new_stmts + [ast.copy_location(ast.Expr(value=value), st)]
                                else:
                                    _replace_node(st, call, value)
                                    repl = new_stmts + [st]
                                block[i:i + 1] = repl
                                i += len(repl)
                                count += 1
                                changed = True
                    if not changed:
                        break
    return count
