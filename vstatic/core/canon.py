"""
Canonical form used by every rule: single-use temporaries are folded back into their use.

    t = E                      (the only binding of t in the function, plain name target)
    S[t]                       (the next statement of the same block, the only use of t)

becomes S[E] when folding cannot change what the program does as far as the rules can see:

 * `t` is evaluated exactly once and unconditionally in S (not under `and/or`, a conditional
   expression, a comprehension, a lambda, nor in a loop body / `while` test), and
 * everything S evaluates *before* it reaches `t` is trivial: names, constants, and attribute
   chains on names none of whose attributes is a property anywhere in the package (reading
   `self.pruned_dict` recomputes and merges classes: order matters there, rule K10).

This makes the rules indifferent to the extract-local / inline-local refactorings; the node
of E keeps its original position, so reports still point at the source line of E.
"""
from __future__ import annotations

import ast
from typing import Dict, Iterator, List, Optional, Set, Tuple

SIMPLE_STMTS = (ast.Assign, ast.AnnAssign, ast.AugAssign, ast.Expr, ast.Return, ast.Raise, ast.Assert, ast.Delete)
FUNCS = (ast.FunctionDef, ast.AsyncFunctionDef, ast.Lambda)


MUTATOR_PREFIXES = ("set", "add", "append", "extend", "update", "pop", "remove", "clear", "connect", "insert", "discard", "del", "link", "prune")


def _pure_getter(fn: ast.FunctionDef) -> bool:
    """Reading the property is not an event for the rules: the getter may compute and cache
    its own value (`self._x = ...` for one attribute), query other objects and raise, but it
    neither calls a method of `self` (which may change anything), nor a mutator of an
    object it holds, nor writes a second attribute."""
    written = set()
    for n in ast.walk(fn):
        if isinstance(n, ast.Call):
            f = n.func
            if isinstance(f, ast.Attribute):
                if isinstance(f.value, ast.Name) and f.value.id == "self":
                    return False
                root = f.value
                while isinstance(root, (ast.Attribute, ast.Subscript)):
                    root = root.value
                if isinstance(root, ast.Name) and root.id == "self" and f.attr.lstrip("_").startswith(MUTATOR_PREFIXES):
                    return False
        elif isinstance(n, (ast.Assign, ast.AugAssign, ast.AnnAssign, ast.Delete)):
            tg = n.targets if isinstance(n, (ast.Assign, ast.Delete)) else [n.target]
            for t in tg:
                for x in ast.walk(t):
                    if isinstance(x, ast.Attribute) and isinstance(x.ctx, (ast.Store, ast.Del)):
                        written.add(ast.unparse(x))
                    if isinstance(x, ast.Subscript) and isinstance(x.ctx, (ast.Store, ast.Del)) and not isinstance(x.value, ast.Name):
                        return False
    return len(written) <= 1


def property_names(trees: List[ast.AST]) -> Set[str]:
    """Names of properties whose getter does more than hand back stored state (reading them
    is an event whose position in the evaluation order matters)."""
    out: Set[str] = set()
    for t in trees:
        for n in ast.walk(t):
            if isinstance(n, (ast.FunctionDef, ast.AsyncFunctionDef)):
                for d in n.decorator_list:
                    txt = ast.unparse(d)
                    if (txt == "property" or txt.endswith("cached_property")) and not _pure_getter(n):
                        out.add(n.name)
            if isinstance(n, ast.ClassDef):
                # __getattr__-style dynamic attributes: be conservative for the whole package
                for st in n.body:
                    if isinstance(st, ast.FunctionDef) and st.name in ("__getattr__", "__getattribute__"):
                        out.add("*")
    return out


class _Order:
    """Evaluation order walk of one statement up to a given Name node."""

    def __init__(self, use: ast.Name, props: Set[str]):
        self.use = use
        self.props = props
        self.before: List[ast.AST] = []     # non-trivial nodes evaluated before the use
        self.found = False
        self.conditional = False

    def trivial(self, e: ast.AST) -> bool:
        if isinstance(e, (ast.Name, ast.Constant)):
            return True
        if isinstance(e, ast.Attribute):
            if "*" in self.props or e.attr in self.props:
                return False
            return self.trivial(e.value)
        return False

    def visit(self, e: Optional[ast.AST], cond: bool = False) -> None:
        """Walk e in evaluation order; stop once the use has been found."""
        if e is None or self.found:
            return
        if e is self.use:
            self.found = True
            self.conditional = cond
            return
        if isinstance(e, (ast.Name, ast.Constant)):
            return
        if isinstance(e, (ast.Lambda, ast.ListComp, ast.SetComp, ast.DictComp, ast.GeneratorExp)):
            if any(x is self.use for x in ast.walk(e)):
                self.found = True
                self.conditional = True      # deferred / repeated evaluation
            else:
                self.before.append(e)
            return
        if isinstance(e, ast.BoolOp):
            for i, v in enumerate(e.values):
                self.visit(v, cond or i > 0)
            return
        if isinstance(e, ast.IfExp):
            self.visit(e.test, cond)
            self.visit(e.body, True)
            self.visit(e.orelse, True)
            return
        if isinstance(e, ast.Compare):
            self.visit(e.left, cond)
            for i, c in enumerate(e.comparators):
                self.visit(c, cond or i > 0)
            if not self.found:
                self.before.append(e)
            return
        if isinstance(e, ast.Attribute):
            if self.trivial(e):
                if any(x is self.use for x in ast.walk(e)):
                    self.found = True
                    self.conditional = cond
                return
            self.visit(e.value, cond)
            if not self.found:
                self.before.append(e)
            return
        if isinstance(e, ast.Call):
            self.visit(e.func, cond)
            for a in e.args:
                self.visit(a, cond)
            for k in e.keywords:
                self.visit(k.value, cond)
            if not self.found:
                self.before.append(e)
            return
        if isinstance(e, ast.NamedExpr):
            self.visit(e.value, cond)
            if not self.found:
                self.before.append(e)
            return
        # generic: children in field order (BinOp, UnaryOp, Subscript, Tuple, List, Set, Dict,
        # JoinedStr, FormattedValue, Starred, Slice, Await, Yield ...)
        if isinstance(e, ast.Dict):
            for k, v in zip(e.keys, e.values):
                self.visit(k, cond)
                self.visit(v, cond)
        else:
            for ch in ast.iter_child_nodes(e):
                if isinstance(ch, (ast.expr_context, ast.operator, ast.unaryop, ast.boolop, ast.cmpop)):
                    continue
                self.visit(ch, cond)
        if not self.found and not isinstance(e, (ast.Tuple, ast.List, ast.Starred, ast.Slice, ast.JoinedStr, ast.FormattedValue, ast.keyword)):
            self.before.append(e)


def _stmt_exprs_in_order(st: ast.stmt) -> Optional[List[ast.AST]]:
    """The expressions a statement evaluates exactly once when it starts, in order; None
    when the statement kind is not handled."""
    if isinstance(st, ast.Assign):
        return [st.value] + list(st.targets)
    if isinstance(st, ast.AnnAssign):
        return [st.value, st.target] if st.value is not None else None
    if isinstance(st, ast.AugAssign):
        return [st.target, st.value]
    if isinstance(st, (ast.Expr, ast.Return)):
        return [st.value] if st.value is not None else None
    if isinstance(st, ast.Raise):
        return [x for x in (st.exc, st.cause) if x is not None]
    if isinstance(st, ast.Assert):
        return [st.test]            # the message only on failure: conditional, not walked
    if isinstance(st, ast.Delete):
        return list(st.targets)
    if isinstance(st, ast.If):
        return [st.test]
    if isinstance(st, ast.For):
        return [st.iter]
    if isinstance(st, ast.With):
        return [st.items[0].context_expr] if st.items else None
    return None


def _blocks(node: ast.AST) -> Iterator[List[ast.stmt]]:
    for field in ("body", "orelse", "finalbody"):
        b = getattr(node, field, None)
        if isinstance(b, list) and b and isinstance(b[0], ast.stmt):
            yield b
    for h in getattr(node, "handlers", []) or []:
        yield h.body


def _local_nodes(func: ast.AST) -> Iterator[ast.AST]:
    """Nodes of func, not descending into nested function / class definitions (their
    own scope), but including their headers' defaults/decorators is not needed here."""
    stack = list(ast.iter_child_nodes(func))
    while stack:
        n = stack.pop()
        yield n
        if isinstance(n, (ast.FunctionDef, ast.AsyncFunctionDef, ast.ClassDef)):
            continue
        stack.extend(ast.iter_child_nodes(n))


def _fold_function(func: ast.AST, props: Set[str]) -> int:
    # bindings / uses of every plain name in this scope (nested scopes make a name ineligible)
    stores: Dict[str, int] = {}
    loads: Dict[str, List[ast.Name]] = {}
    ineligible: Set[str] = set()
    a = func.args
    for arg in a.posonlyargs + a.args + a.kwonlyargs + ([a.vararg] if a.vararg else []) + ([a.kwarg] if a.kwarg else []):
        ineligible.add(arg.arg)
    for n in _local_nodes(func):
        if isinstance(n, ast.Name):
            if isinstance(n.ctx, ast.Load):
                loads.setdefault(n.id, []).append(n)
            else:
                stores[n.id] = stores.get(n.id, 0) + 1
        elif isinstance(n, (ast.Global, ast.Nonlocal)):
            ineligible.update(n.names)
        elif isinstance(n, (ast.FunctionDef, ast.AsyncFunctionDef, ast.ClassDef)):
            ineligible.add(n.name)
            for x in ast.walk(n):
                if isinstance(x, ast.Name):
                    ineligible.add(x.id)     # closures may read / write it
        elif isinstance(n, ast.Lambda):
            pass
        elif isinstance(n, ast.ExceptHandler) and n.name:
            ineligible.add(n.name)
        elif isinstance(n, (ast.Import, ast.ImportFrom)):
            for al in n.names:
                ineligible.add(al.asname or al.name.split(".")[0])
    folded = 0
    changed = True
    while changed:
        changed = False
        for holder in [func] + [n for n in _local_nodes(func)]:
            for block in _blocks(holder):
                i = 0
                while i + 1 < len(block):
                    st, nxt = block[i], block[i + 1]
                    name = None
                    if isinstance(st, ast.Assign) and len(st.targets) == 1 and isinstance(st.targets[0], ast.Name):
                        name, value = st.targets[0].id, st.value
                    elif isinstance(st, ast.AnnAssign) and isinstance(st.target, ast.Name) and st.value is not None:
                        name, value = st.target.id, st.value
                    if (name is None or name in ineligible or stores.get(name, 0) != 1 or len(loads.get(name, [])) != 1
                            or any(isinstance(x, (ast.Yield, ast.YieldFrom, ast.Await, ast.NamedExpr)) for x in ast.walk(value))):
                        i += 1
                        continue
                    use = loads[name][0]
                    exprs = _stmt_exprs_in_order(nxt)
                    if exprs is None:
                        i += 1
                        continue
                    o = _Order(use, props)
                    for e in exprs:
                        o.visit(e)
                        if o.found:
                            break
                    if not o.found or o.conditional or o.before:
                        i += 1
                        continue
                    # an augmented-assignment target or a deleted name is not a value position
                    if _replace(nxt, use, value):
                        del block[i]
                        loads.pop(name, None)
                        stores.pop(name, None)
                        folded += 1
                        changed = True
                        continue
                    i += 1
    return folded


def _replace(root: ast.AST, old: ast.AST, new: ast.AST) -> bool:
    for n in ast.walk(root):
        for field, val in ast.iter_fields(n):
            if val is old:
                setattr(n, field, new)
                return True
            if isinstance(val, list):
                for j, x in enumerate(val):
                    if x is old:
                        val[j] = new
                        return True
    return False


def _chain(e: ast.AST) -> Optional[List[str]]:
    parts: List[str] = []
    while isinstance(e, ast.Attribute):
        parts.append(e.attr)
        e = e.value
    if isinstance(e, ast.Name):
        parts.append(e.id)
        return parts[::-1]
    return None


METHOD_NAMES: Set[str] = set()


def method_names(trees: List[ast.AST]) -> Set[str]:
    """Names that are methods (not properties) of some class of the package."""
    out: Set[str] = set()
    props: Set[str] = set()
    for t in trees:
        for c in ast.walk(t):
            if isinstance(c, ast.ClassDef):
                for m in c.body:
                    if isinstance(m, (ast.FunctionDef, ast.AsyncFunctionDef)):
                        decos = [ast.unparse(d) for d in m.decorator_list]
                        if any(d == "property" or d.endswith(".setter") or d.endswith("cached_property") for d in decos):
                            props.add(m.name)
                        else:
                            out.add(m.name)
    return out - props


def _fold_aliases(func: ast.AST, props: Set[str]) -> int:
    """`t = self.a.b` (the only binding of t; a plain attribute chain none of whose attributes is
    an effectful property, and no part of which is assigned in this function): every use of t
    is the chain.  Makes `get_label = self.classdb.get_label` before a loop invisible."""
    import copy

    cparent: Dict[int, ast.AST] = {}
    for n in ast.walk(func):
        for ch_ in ast.iter_child_nodes(n):
            cparent[id(ch_)] = n
    stores: Dict[str, int] = {}
    attr_stores: Set[str] = set()
    a = func.args
    params = {x.arg for x in a.posonlyargs + a.args + a.kwonlyargs} | ({a.vararg.arg} if a.vararg else set()) | ({a.kwarg.arg} if a.kwarg else set())
    for n in ast.walk(func):
        if isinstance(n, ast.Name) and isinstance(n.ctx, (ast.Store, ast.Del)):
            stores[n.id] = stores.get(n.id, 0) + 1
        elif isinstance(n, ast.Attribute) and isinstance(n.ctx, (ast.Store, ast.Del)):
            attr_stores.add(n.attr)
        elif isinstance(n, (ast.Global, ast.Nonlocal)):
            for nm in n.names:
                stores[nm] = stores.get(nm, 0) + 2
    folded = 0
    for holder in [func] + [n for n in _local_nodes(func)]:
        for block in _blocks(holder):
            i = 0
            while i < len(block):
                st = block[i]
                name = value = None
                if isinstance(st, ast.Assign) and len(st.targets) == 1 and isinstance(st.targets[0], ast.Name):
                    name, value = st.targets[0].id, st.value
                elif isinstance(st, ast.AnnAssign) and isinstance(st.target, ast.Name) and st.value is not None:
                    name, value = st.target.id, st.value
                ch = _chain(value) if value is not None and isinstance(value, ast.Attribute) else None
                if (name is None or ch is None or name in params or stores.get(name, 0) != 1 or ch[0] not in ("self", "cls")
                        or "*" in props or any(x in props for x in ch[1:]) or any(x in attr_stores for x in ch[1:])
                        or stores.get(ch[0], 0) > 0):
                    i += 1
                    continue
                # only a *bound method* may be read through: `x = self.a.b` with b a plain value is a snapshot
                # of that value (do_level keeps the level counter to see whether it has changed)
                if ch[-1] not in METHOD_NAMES:
                    i += 1
                    continue
                uses = [n for n in ast.walk(func) if isinstance(n, ast.Name) and n.id == name and isinstance(n.ctx, ast.Load)]
                if not all(isinstance(cparent.get(id(u)), ast.Call) and cparent[id(u)].func is u for u in uses):
                    i += 1
                    continue
                # every use must come after the binding in source order (a loop could otherwise read it before)
                if not uses or any((u.lineno, u.col_offset) < (st.lineno, st.col_offset) for u in uses):
                    i += 1
                    continue
                for u in uses:
                    _replace(func, u, _clone(value))
                del block[i]
                folded += 1
            # an emptied block cannot happen: the binding was followed by at least one use elsewhere,
            # but the block itself may now be empty
            if not block:
                block.append(ast.Pass())
    return folded


INIT_ONLY_ATTRS: Dict[str, Set[str]] = {}      # class name -> attributes bound in __init__ and nowhere else in the package
MUTATORS = {"append", "appendleft", "extend", "insert", "pop", "popleft", "remove", "clear", "sort", "reverse", "add", "discard", "update", "setdefault", "popitem"}


def init_only_attrs(trees: List[ast.AST]) -> Dict[str, Set[str]]:
    """Per class: attributes of self that are assigned in __init__ and never re-bound by any
    other method of that class or of a class derived from / deriving it (by base name), nor
    through a receiver other than `self` anywhere in the package: an alias of such an attribute
    denotes the same object for the whole life of the instance."""
    foreign: Set[str] = set()          # stored through a receiver that is not `self`
    in_init: Dict[str, Set[str]] = {}
    elsewhere: Dict[str, Set[str]] = {}
    bases: Dict[str, Set[str]] = {}
    for t in trees:
        for c in ast.walk(t):
            if isinstance(c, ast.ClassDef):
                bases[c.name] = {ast.unparse(b).split("[")[0].split(".")[-1] for b in c.bases}
                for m in c.body:
                    if isinstance(m, (ast.FunctionDef, ast.AsyncFunctionDef)):
                        for n in ast.walk(m):
                            if isinstance(n, ast.Attribute) and isinstance(n.ctx, (ast.Store, ast.Del)):
                                if isinstance(n.value, ast.Name) and n.value.id == "self":
                                    (in_init if m.name == "__init__" else elsewhere).setdefault(c.name, set()).add(n.attr)
                                else:
                                    foreign.add(n.attr)
        for n in ast.walk(t):
            if isinstance(n, ast.Call) and isinstance(n.func, ast.Name) and n.func.id in ("setattr", "delattr"):
                return {}
            if isinstance(n, (ast.FunctionDef, ast.AsyncFunctionDef)):
                pass
        # module-level functions storing attributes on objects
        for st in getattr(t, "body", []):
            if isinstance(st, (ast.FunctionDef, ast.AsyncFunctionDef)):
                for n in ast.walk(st):
                    if isinstance(n, ast.Attribute) and isinstance(n.ctx, (ast.Store, ast.Del)):
                        foreign.add(n.attr)

    def family(c: str) -> Set[str]:
        out = {c}
        changed = True
        while changed:
            changed = False
            for k, bs in bases.items():
                if k not in out and (bs & out):
                    out.add(k)
                    changed = True
                if k in out:
                    for b in bs:
                        if b in bases and b not in out:
                            out.add(b)
                            changed = True
        return out

    res: Dict[str, Set[str]] = {}
    for c, attrs in in_init.items():
        fam = family(c)
        rebound = set().union(*[elsewhere.get(k, set()) for k in fam]) if fam else set()
        res[c] = {a for a in attrs if a not in rebound and a not in foreign}
    return res


PLAIN_CONTAINER_ATTRS: Dict[str, Set[str]] = {}   # class name -> init-only attributes that hold a built-in tuple


def _plain_container_value(v: Optional[ast.AST], attr: str) -> bool:
    if v is None:
        return False
    # tuples only: a list or dict lookup can raise depending on what was stored since, and rules
    # about handlers care where that happens
    if isinstance(v, ast.Tuple):
        return True
    if isinstance(v, ast.Call) and isinstance(v.func, ast.Name) and v.func.id == "tuple":
        return True
    if isinstance(v, ast.BinOp) and isinstance(v.op, ast.Add):
        def side(x):
            return _plain_container_value(x, attr) or (isinstance(x, ast.Attribute) and isinstance(x.value, ast.Name) and x.value.id == "self" and x.attr == attr)
        return side(v.left) and side(v.right)
    return False


def plain_container_attrs(trees: List[ast.AST], init_only: Dict[str, Set[str]]) -> Dict[str, Set[str]]:
    """Of the init-only attributes, those every assignment of which (in __init__) is a tuple
    display, a tuple() call or a concatenation of such: subscripting them is a plain lookup."""
    res: Dict[str, Set[str]] = {}
    for t in trees:
        for c in ast.walk(t):
            if not isinstance(c, ast.ClassDef):
                continue
            vals: Dict[str, List[Optional[ast.AST]]] = {}
            for m in c.body:
                if isinstance(m, (ast.FunctionDef, ast.AsyncFunctionDef)) and m.name == "__init__":
                    for n in ast.walk(m):
                        tv = None
                        if isinstance(n, ast.Assign) and len(n.targets) == 1:
                            tv = (n.targets[0], n.value)
                        elif isinstance(n, ast.AnnAssign):
                            tv = (n.target, n.value)
                        elif isinstance(n, (ast.Assign, ast.AugAssign)):
                            for tg in (n.targets if isinstance(n, ast.Assign) else [n.target]):
                                for x in ast.walk(tg):
                                    if isinstance(x, ast.Attribute) and isinstance(x.value, ast.Name) and x.value.id == "self":
                                        vals.setdefault(x.attr, []).append(None)
                        if tv and isinstance(tv[0], ast.Attribute) and isinstance(tv[0].value, ast.Name) and tv[0].value.id == "self":
                            vals.setdefault(tv[0].attr, []).append(tv[1])
            ok = {a for a, vs in vals.items() if a in init_only.get(c.name, set()) and vs and all(_plain_container_value(v, a) for v in vs)}
            if ok:
                res[c.name] = ok
    return res


def _pure_value(e: ast.AST, cls_attrs: Set[str], props: Set[str], plain: Optional[Set[str]] = None, effectful: Optional[Set[str]] = None) -> bool:
    """Evaluating e has no effect and denotes the same thing wherever its free names do:
    names, constants, arithmetic, tuple displays, slices / subscripts of names, and chains
    `self.a(.b)*` whose first attribute is bound in __init__ only."""
    if isinstance(e, (ast.Name, ast.Constant)):
        return True
    if isinstance(e, ast.Attribute):
        ch = _chain(e)
        if ch is None or ch[0] != "self" or len(ch) < 2:
            return False
        if "*" in props or any(x in props for x in ch[1:]):
            return False
        return ch[1] in cls_attrs and (len(ch) == 2 or ch[-1] in METHOD_NAMES)
    if isinstance(e, ast.BinOp) and isinstance(e.op, (ast.Add, ast.Sub, ast.Mult, ast.FloorDiv)):
        return _pure_value(e.left, cls_attrs, props, plain, effectful) and _pure_value(e.right, cls_attrs, props, plain, effectful)
    if isinstance(e, ast.UnaryOp) and isinstance(e.op, (ast.USub, ast.UAdd)):
        return _pure_value(e.operand, cls_attrs, props, plain, effectful)
    if isinstance(e, ast.Tuple):
        return all(_pure_value(x, cls_attrs, props, plain, effectful) for x in e.elts)
    if isinstance(e, ast.Subscript):
        # a subscript is a __getitem__ call: plain only for local names that are not known to be
        # containers with an effectful lookup (defaultdict, Counter, ...), and for `self.a` where a
        # is an init-only built-in container
        if isinstance(e.value, ast.Name):
            if effectful and e.value.id in effectful:
                return False
        elif not (isinstance(e.value, ast.Attribute) and isinstance(e.value.value, ast.Name) and e.value.value.id == "self"
                  and e.value.attr in (plain or set()) and e.value.attr in cls_attrs and e.value.attr not in props and "*" not in props):
            return False
        sl = e.slice
        parts = [sl.lower, sl.upper, sl.step] if isinstance(sl, ast.Slice) else [sl]
        return all(x is None or _pure_value(x, cls_attrs, props, plain, effectful) for x in parts)
    return False


def _propagate_pure_locals(func: ast.AST, props: Set[str], cls_name: Optional[str]) -> int:
    """`t = E` with E pure (see _pure_value), t bound once, and nothing E mentions re-bound or
    mutated at or after that point: every later use of t is E.  (Micro-optimisations such as
    `shifts_table = self._shifts`, `new_value = old_value + 1`, `tail = xs[1:]`.)"""
    import copy

    cls_attrs = INIT_ONLY_ATTRS.get(cls_name or "", set())
    plain = PLAIN_CONTAINER_ATTRS.get(cls_name or "", set())
    # locals (and parameters, by annotation) whose subscript has an effect or is not a plain lookup
    effectful: Set[str] = set()
    for n in ast.walk(func):
        tv = None
        if isinstance(n, ast.Assign) and len(n.targets) == 1 and isinstance(n.targets[0], ast.Name):
            tv = (n.targets[0].id, n.value, None)
        elif isinstance(n, ast.AnnAssign) and isinstance(n.target, ast.Name):
            tv = (n.target.id, n.value, n.annotation)
        elif isinstance(n, ast.arg):
            tv = (n.arg, None, n.annotation)
        if tv is None:
            continue
        nm, v, ann = tv
        txt = (ast.unparse(v) if v is not None else "") + " " + (ast.unparse(ann) if ann is not None else "")
        if any(k in txt for k in ("defaultdict", "DefaultDict", "Counter", "DefaultList", "EquivalenceDB", "ClassDB", "LabelToInfo", "ClassToInfo", "RecomputingDict")):
            effectful.add(nm)
    a = func.args
    params = {x.arg for x in a.posonlyargs + a.args + a.kwonlyargs} | ({a.vararg.arg} if a.vararg else set()) | ({a.kwarg.arg} if a.kwarg else set())
    folded = 0
    for _round in range(4):
        changed = False
        store_pos: Dict[str, List[Tuple[int, int]]] = {}
        mut_pos: Dict[str, List[Tuple[int, int]]] = {}
        nested_names: Set[str] = set()
        for n in ast.walk(func):
            if isinstance(n, ast.Name) and isinstance(n.ctx, (ast.Store, ast.Del)):
                store_pos.setdefault(n.id, []).append((n.lineno, n.col_offset))
            elif isinstance(n, (ast.Global, ast.Nonlocal)):
                for nm in n.names:
                    store_pos.setdefault(nm, []).extend([(0, 0), (10 ** 9, 0)])
            elif isinstance(n, ast.Call) and isinstance(n.func, ast.Attribute) and n.func.attr in MUTATORS and isinstance(n.func.value, ast.Name):
                mut_pos.setdefault(n.func.value.id, []).append((n.lineno, n.col_offset))
            elif isinstance(n, ast.Subscript) and isinstance(n.ctx, (ast.Store, ast.Del)) and isinstance(n.value, ast.Name):
                mut_pos.setdefault(n.value.id, []).append((n.lineno, n.col_offset))
            elif isinstance(n, ast.AugAssign) and isinstance(n.target, ast.Name):
                store_pos.setdefault(n.target.id, []).append((n.lineno, n.col_offset))
            if isinstance(n, (ast.FunctionDef, ast.AsyncFunctionDef, ast.Lambda)) and n is not func:
                for x in ast.walk(n):
                    if isinstance(x, ast.Name) and isinstance(x.ctx, (ast.Store, ast.Del)):
                        nested_names.add(x.id)
        loops = [n for n in ast.walk(func) if isinstance(n, (ast.For, ast.While))]
        for holder in [func] + [n for n in _local_nodes(func)]:
            for block in _blocks(holder):
                i = 0
                while i < len(block):
                    st = block[i]
                    name = value = None
                    if isinstance(st, ast.Assign) and len(st.targets) == 1 and isinstance(st.targets[0], ast.Name):
                        name, value = st.targets[0].id, st.value
                    elif isinstance(st, ast.AnnAssign) and isinstance(st.target, ast.Name) and st.value is not None:
                        name, value = st.target.id, st.value
                    if name is None or name in params or name in nested_names or len(store_pos.get(name, [])) != 1 or isinstance(value, (ast.Name, ast.Constant)) \
                            or not _pure_value(value, cls_attrs, props, plain, effectful):
                        i += 1
                        continue
                    here = (st.lineno, st.col_offset)
                    free = {x.id for x in ast.walk(value) if isinstance(x, ast.Name)}
                    # nothing the value mentions is re-bound at or after this statement, nor (for subscripts) mutated;
                    # and the statement is not inside a loop in which a free name is bound (it would be stale per iteration)
                    stale = False
                    for fv in free:
                        if fv == "self":
                            continue
                        if any(p >= here for p in store_pos.get(fv, [])):
                            stale = True
                        if any(isinstance(x, ast.Subscript) for x in ast.walk(value)) and any(p >= here for p in mut_pos.get(fv, [])):
                            stale = True
                        for lp in loops:
                            lo, hi = lp.lineno, getattr(lp, "end_lineno", lp.lineno)
                            inside = lo <= st.lineno <= hi
                            in_loop_stores = [p for p in store_pos.get(fv, []) if lo <= p[0] <= hi]
                            if inside and in_loop_stores:
                                # bound earlier in the same iteration and t used only inside this loop: fine
                                uses_in = all(lo <= n.lineno <= hi for n in ast.walk(func) if isinstance(n, ast.Name) and n.id == name and isinstance(n.ctx, ast.Load))
                                if not (all(p < here for p in in_loop_stores) and uses_in):
                                    stale = True
                    uses = [n for n in ast.walk(func) if isinstance(n, ast.Name) and n.id == name and isinstance(n.ctx, ast.Load)]
                    if stale or not uses or any((u.lineno, u.col_offset) < here for u in uses):
                        i += 1
                        continue
                    # a use inside a loop that does not contain the binding reads the same value every time: fine
                    for u in uses:
                        _replace(func, u, _clone(value))
                    del block[i]
                    if not block:
                        block.append(ast.Pass())
                    folded += 1
                    changed = True
        if not changed:
            break
    return folded


def _clone(node):
    """Syntax-only copy (fields and positions): whatever else hangs on a node is not followed."""
    if isinstance(node, list):
        return [_clone(x) for x in node]
    if not isinstance(node, ast.AST):
        return node
    new = node.__class__()
    for name, val in ast.iter_fields(node):
        setattr(new, name, _clone(val))
    for a in ("lineno", "col_offset", "end_lineno", "end_col_offset"):
        if hasattr(node, a):
            setattr(new, a, getattr(node, a))
    return new


def _names_in(e: Optional[ast.AST]) -> Set[str]:
    return {x.id for x in ast.walk(e) if isinstance(x, ast.Name)} if e is not None else set()


def _append_body(body: List[ast.stmt]):
    """(condition or None, the single statement) for the bodies  [S] , [if c: S]  and
    [if c: continue ; S]  (the last is `if not c: S`); None otherwise."""
    if len(body) == 1:
        b = body[0]
        if isinstance(b, ast.If) and not b.orelse and len(b.body) == 1:
            return b.test, b.body[0]
        return None, b
    if len(body) == 2 and isinstance(body[0], ast.If) and not body[0].orelse and len(body[0].body) == 1 and isinstance(body[0].body[0], ast.Continue):
        neg = ast.UnaryOp(op=ast.Not(), operand=body[0].test)
        ast.copy_location(neg, body[0].test)
        return neg, body[1]
    return None


def _loops_to_comprehensions(func: ast.AST) -> int:
    """`L = []` immediately followed by `for T in IT: L.append(E)` (optionally under one `if`)
    is the list comprehension `L = [E for T in IT if c]`: same elements, same order, same
    evaluation order.  Only when the loop variables are not read after the loop (a
    comprehension does not leak them) and nothing in the loop mentions L."""
    n = 0
    for holder in [func] + list(_local_nodes(func)):
        for block in _blocks(holder):
            i = 0
            while i + 1 < len(block):
                st, lp = block[i], block[i + 1]
                name = None
                if isinstance(st, ast.Assign) and len(st.targets) == 1 and isinstance(st.targets[0], ast.Name):
                    name, value = st.targets[0].id, st.value
                elif isinstance(st, ast.AnnAssign) and isinstance(st.target, ast.Name) and st.value is not None:
                    name, value = st.target.id, st.value
                empty = name is not None and (isinstance(value, ast.List) and not value.elts
                                              or isinstance(value, ast.Call) and isinstance(value.func, ast.Name) and value.func.id == "list"
                                              and not value.args and not value.keywords)
                if not empty or not isinstance(lp, ast.For) or lp.orelse or _append_body(lp.body) is None:
                    i += 1
                    continue
                test, b = _append_body(lp.body)
                ok = (isinstance(b, ast.Expr) and isinstance(b.value, ast.Call) and isinstance(b.value.func, ast.Attribute) and b.value.func.attr == "append"
                      and isinstance(b.value.func.value, ast.Name) and b.value.func.value.id == name and len(b.value.args) == 1 and not b.value.keywords
                      and not isinstance(b.value.args[0], ast.Starred))
                if not ok:
                    i += 1
                    continue
                elt = b.value.args[0]
                parts = [elt, test, lp.iter, lp.target]
                if any(name in _names_in(x) for x in parts) or any(isinstance(y, (ast.Yield, ast.YieldFrom, ast.Await, ast.NamedExpr)) for x in parts if x is not None
                                                                    for y in ast.walk(x)):
                    i += 1
                    continue
                tnames = _names_in(lp.target)
                inside = {id(y) for y in ast.walk(lp)}
                if any(isinstance(y, ast.Name) and y.id in tnames and id(y) not in inside for y in _local_nodes(func)):
                    i += 1
                    continue            # the loop variable is used outside the loop
                comp = ast.ListComp(elt=elt, generators=[ast.comprehension(target=lp.target, iter=lp.iter, ifs=[test] if test is not None else [], is_async=0)])
                ast.copy_location(comp, lp)
                st.value = comp
                del block[i + 1]
                n += 1
                i += 1
    return n


def _append_loops_to_extend(func: ast.AST) -> int:
    """`for T in IT: X.append(E)` (optionally under one `if`) is `X.extend(E for T in IT if c)`
    when X is a name or a plain attribute / subscript chain that the loop does not involve."""
    n = 0
    for holder in [func] + list(_local_nodes(func)):
        for block in _blocks(holder):
            for i, lp in enumerate(block):
                if not isinstance(lp, ast.For) or lp.orelse or _append_body(lp.body) is None:
                    continue
                test, b = _append_body(lp.body)
                if not (isinstance(b, ast.Expr) and isinstance(b.value, ast.Call) and isinstance(b.value.func, ast.Attribute) and b.value.func.attr == "append"
                        and len(b.value.args) == 1 and not b.value.keywords and not isinstance(b.value.args[0], ast.Starred)):
                    continue
                recv = b.value.func.value
                cur = recv
                plain = True
                while not isinstance(cur, ast.Name):
                    if isinstance(cur, ast.Attribute):
                        cur = cur.value
                    elif isinstance(cur, ast.Subscript) and isinstance(cur.slice, (ast.Constant, ast.Name)):
                        cur = cur.value
                    else:
                        plain = False
                        break
                if not plain:
                    continue
                elt = b.value.args[0]
                tnames = _names_in(lp.target)
                rnames = _names_in(recv)
                if rnames & tnames or (rnames - {"self"}) & (_names_in(lp.iter) | _names_in(elt) | _names_in(test)):
                    continue
                if norm_text(recv) in norm_text(lp.iter) or norm_text(recv) in norm_text(elt):
                    continue
                parts = [elt, test, lp.iter]
                if any(isinstance(y, (ast.Yield, ast.YieldFrom, ast.Await, ast.NamedExpr)) for x in parts if x is not None for y in ast.walk(x)):
                    continue
                inside = {id(y) for y in ast.walk(lp)}
                if any(isinstance(y, ast.Name) and y.id in tnames and id(y) not in inside for y in _local_nodes(func)):
                    continue
                ge = ast.GeneratorExp(elt=elt, generators=[ast.comprehension(target=lp.target, iter=lp.iter, ifs=[test] if test is not None else [], is_async=0)])
                ast.copy_location(ge, lp)
                call = ast.Call(func=ast.Attribute(value=recv, attr="extend", ctx=ast.Load()), args=[ge], keywords=[])
                ast.copy_location(call, lp)
                ast.copy_location(call.func, lp)
                new = ast.Expr(value=call)
                ast.copy_location(new, lp)
                block[i] = new
                n += 1
    return n


def norm_text(e: Optional[ast.AST]) -> str:
    return " ".join(ast.unparse(e).split()) if e is not None else "\0"


_CONSUMERS = {"tuple", "list", "set", "frozenset", "sorted", "sum", "min", "max"}


def _map_arguments(func: ast.AST) -> int:
    """tuple(map(f, xs)) is tuple(f(x) for x in xs), and map(d.__getitem__, xs) is d[x] for x in
    xs, where the map object is handed straight to a consumer that takes all its elements (or
    is the iterable of a `for` / of `.extend`)."""
    n = 0

    def as_gen(m: ast.Call) -> Optional[ast.GeneratorExp]:
        if not (isinstance(m.func, ast.Name) and m.func.id == "map" and len(m.args) == 2 and not m.keywords):
            return None
        fn, it = m.args
        if isinstance(it, ast.Starred) or isinstance(fn, (ast.Lambda, ast.Starred)):
            return None
        var = ast.Name(id="_m", ctx=ast.Load())
        if isinstance(fn, ast.Attribute) and fn.attr == "__getitem__":
            elt: ast.expr = ast.Subscript(value=fn.value, slice=var, ctx=ast.Load())
        elif isinstance(fn, (ast.Name, ast.Attribute)):
            elt = ast.Call(func=fn, args=[var], keywords=[])
        else:
            return None
        if any(isinstance(x, ast.Name) and x.id == "_m" for x in ast.walk(fn)) or any(isinstance(x, ast.Name) and x.id == "_m" for x in ast.walk(it)):
            return None
        ge = ast.GeneratorExp(elt=elt, generators=[ast.comprehension(target=ast.Name(id="_m", ctx=ast.Store()), iter=it, ifs=[], is_async=0)])
        for x in ast.walk(ge):
            if not hasattr(x, "lineno"):
                ast.copy_location(x, m)
        ast.copy_location(ge, m)
        return ge

    for c in list(_local_nodes(func)):
        if isinstance(c, ast.Call) and c.args and isinstance(c.args[0], ast.Call):
            consumer = (isinstance(c.func, ast.Name) and c.func.id in _CONSUMERS | {"any", "all", "dict", "deque"}) or \
                (isinstance(c.func, ast.Attribute) and c.func.attr in ("extend", "update", "join"))
            if consumer:
                ge = as_gen(c.args[0])
                if ge is not None:
                    c.args[0] = ge
                    n += 1
        elif isinstance(c, (ast.For, ast.comprehension)) and isinstance(c.iter, ast.Call):
            ge = as_gen(c.iter)
            if ge is not None:
                c.iter = ge
                n += 1
    return n


def _comprehension_arguments(func: ast.AST) -> int:
    """tuple([f(x) for x in xs]) is tuple(f(x) for x in xs) for every consumer that takes all
    the elements."""
    n = 0
    for c in list(_local_nodes(func)):
        if isinstance(c, ast.Call) and isinstance(c.func, ast.Name) and c.func.id in _CONSUMERS and c.args and isinstance(c.args[0], ast.ListComp):
            lc = c.args[0]
            ge = ast.GeneratorExp(elt=lc.elt, generators=lc.generators)
            ast.copy_location(ge, lc)
            c.args[0] = ge
            n += 1
    return n


def _getitem_calls(func: ast.AST) -> int:
    """`x.__getitem__(k)` is `x[k]`."""
    n = 0
    for holder in list(_local_nodes(func)):
        for field, val in ast.iter_fields(holder):
            items = val if isinstance(val, list) else [val]
            for j, e in enumerate(items):
                if isinstance(e, ast.Call) and isinstance(e.func, ast.Attribute) and e.func.attr == "__getitem__" and len(e.args) == 1 and not e.keywords \
                        and not isinstance(e.args[0], ast.Starred):
                    sub = ast.Subscript(value=e.func.value, slice=e.args[0], ctx=ast.Load())
                    ast.copy_location(sub, e)
                    if isinstance(val, list):
                        val[j] = sub
                    else:
                        setattr(holder, field, sub)
                    n += 1
    return n


def _tuple_repetition(func: ast.AST) -> int:
    """`(c,) * n` / `n * (c,)` with a constant c is `tuple(c for _ in range(n))`."""
    n = 0
    for holder in list(_local_nodes(func)):
        for field, val in ast.iter_fields(holder):
            items = val if isinstance(val, list) else [val]
            for j, e in enumerate(items):
                if not (isinstance(e, ast.BinOp) and isinstance(e.op, ast.Mult)):
                    continue
                tup, cnt = (e.left, e.right) if isinstance(e.left, ast.Tuple) else (e.right, e.left)
                if not (isinstance(tup, ast.Tuple) and len(tup.elts) == 1 and isinstance(tup.elts[0], ast.Constant)) or isinstance(cnt, ast.Tuple):
                    continue
                ge = ast.GeneratorExp(elt=tup.elts[0], generators=[ast.comprehension(
                    target=ast.Name(id="_", ctx=ast.Store()), iter=ast.Call(func=ast.Name(id="range", ctx=ast.Load()), args=[cnt], keywords=[]), ifs=[], is_async=0)])
                call = ast.Call(func=ast.Name(id="tuple", ctx=ast.Load()), args=[ge], keywords=[])
                for x in ast.walk(call):
                    if not hasattr(x, "lineno"):
                        ast.copy_location(x, e)
                ast.copy_location(call, e)
                ast.fix_missing_locations(call)
                if isinstance(val, list):
                    val[j] = call
                else:
                    setattr(holder, field, call)
                n += 1
    return n


def _single_element_updates(func: ast.AST) -> int:
    """`s.update({e})` and `s |= {e}` (a set display with one element) are `s.add(e)`."""
    n = 0
    for blk in [b for node in [func] + list(_local_nodes(func)) for b in _blocks(node)]:
        for j, st in enumerate(blk):
            call = None
            if isinstance(st, ast.Expr) and isinstance(st.value, ast.Call) and isinstance(st.value.func, ast.Attribute) and st.value.func.attr == "update" \
                    and len(st.value.args) == 1 and not st.value.keywords and isinstance(st.value.args[0], ast.Set) and len(st.value.args[0].elts) == 1 \
                    and not isinstance(st.value.args[0].elts[0], ast.Starred):
                call = ast.Call(func=ast.Attribute(value=st.value.func.value, attr="add", ctx=ast.Load()), args=[st.value.args[0].elts[0]], keywords=[])
            elif isinstance(st, ast.AugAssign) and isinstance(st.op, ast.BitOr) and isinstance(st.value, ast.Set) and len(st.value.elts) == 1 \
                    and not isinstance(st.value.elts[0], ast.Starred) and isinstance(st.target, (ast.Name, ast.Attribute)):
                tgt = _clone(st.target)
                tgt.ctx = ast.Load()
                call = ast.Call(func=ast.Attribute(value=tgt, attr="add", ctx=ast.Load()), args=[st.value.elts[0]], keywords=[])
            if call is None:
                continue
            new = ast.Expr(value=call)
            for x in ast.walk(new):
                if not hasattr(x, "lineno"):
                    ast.copy_location(x, st)
            ast.copy_location(new, st)
            ast.fix_missing_locations(new)
            blk[j] = new
            n += 1
    return n


def _slice_zero_lower(func: ast.AST) -> int:
    """`xs[0:k]` is `xs[:k]`."""
    n = 0
    for x in list(_local_nodes(func)):
        if isinstance(x, ast.Slice) and isinstance(x.lower, ast.Constant) and x.lower.value == 0 and type(x.lower.value) is int and x.step is None:
            x.lower = None
            n += 1
    return n


def _ifelse_assign_to_ifexp(func: ast.AST) -> int:
    """`if c: x = A` / `else: x = B` (one plain name, nothing else in either arm) is `x = A if c else B`."""
    n = 0
    for blk in [b for node in [func] + list(_local_nodes(func)) for b in _blocks(node)]:
        for j, st in enumerate(blk):
            if not (isinstance(st, ast.If) and len(st.body) == 1 and len(st.orelse) == 1):
                continue
            a, b = st.body[0], st.orelse[0]
            if not (isinstance(a, ast.Assign) and isinstance(b, ast.Assign) and len(a.targets) == 1 and len(b.targets) == 1
                    and isinstance(a.targets[0], (ast.Name, ast.Attribute, ast.Subscript)) and ast.dump(a.targets[0]) == ast.dump(b.targets[0])):
                continue
            new = ast.Assign(targets=[a.targets[0]], value=ast.IfExp(test=st.test, body=a.value, orelse=b.value))
            for x in ast.walk(new):
                if not hasattr(x, "lineno"):
                    ast.copy_location(x, st)
            ast.copy_location(new, st)
            ast.fix_missing_locations(new)
            blk[j] = new
            n += 1
    return n


METHOD_SIGNATURES: Dict[str, List[List[str]]] = {}


def method_signatures(trees: List[ast.AST]) -> Dict[str, List[List[str]]]:
    """Positional parameter names (without self / cls) of every method of the package, by method name."""
    out: Dict[str, List[List[str]]] = {}
    for t in trees:
        for c in ast.walk(t):
            if isinstance(c, ast.ClassDef):
                for m in c.body:
                    if isinstance(m, (ast.FunctionDef, ast.AsyncFunctionDef)) and m.args.vararg is None:
                        decos = [ast.unparse(d) for d in m.decorator_list]
                        ps = [a.arg for a in m.args.posonlyargs + m.args.args]
                        if "staticmethod" not in decos:
                            ps = ps[1:]
                        out.setdefault(m.name, []).append(ps)
    return out


def _keywords_to_positional(func: ast.AST) -> int:
    """`x.m(a=1, b=2)` is `x.m(1, 2)` when every method `m` of the package that has parameters a
    and b has them at those positions: the positional form is the canonical one."""
    n = 0
    for c in list(_local_nodes(func)):
        if not (isinstance(c, ast.Call) and isinstance(c.func, ast.Attribute) and c.keywords and not c.func.attr.startswith("__")):
            continue
        if any(k.arg is None for k in c.keywords) or any(isinstance(a, ast.Starred) for a in c.args):
            continue
        names = {k.arg for k in c.keywords}
        cands = [sig for sig in METHOD_SIGNATURES.get(c.func.attr, []) if names <= set(sig)]
        if not cands:
            continue
        while True:
            j = len(c.args)
            nxt = {sig[j] if j < len(sig) else None for sig in cands}
            if len(nxt) != 1 or None in nxt:
                break
            nm = next(iter(nxt))
            kw = [k for k in c.keywords if k.arg == nm]
            if not kw:
                break
            c.args.append(kw[0].value)
            c.keywords.remove(kw[0])
            n += 1
    return n


def canonicalise(tree: ast.AST, props: Set[str]) -> int:
    total = 0
    for c in ast.walk(tree):
        if isinstance(c, ast.ClassDef):
            for n in c.body:
                if isinstance(n, (ast.FunctionDef, ast.AsyncFunctionDef)):
                    n._canon_cls = c.name  # type: ignore[attr-defined]
    for n in ast.walk(tree):
        if isinstance(n, (ast.FunctionDef, ast.AsyncFunctionDef)):
            cls_name = getattr(n, "_canon_cls", None)
            total += _single_element_updates(n)
            total += _keywords_to_positional(n)
            total += _ifelse_assign_to_ifexp(n)
            total += _slice_zero_lower(n)
            total += _map_arguments(n)
            total += _fold_aliases(n, props)
            total += _propagate_pure_locals(n, props, cls_name)
            total += _fold_function(n, props)
            k = _loops_to_comprehensions(n)
            k += _append_loops_to_extend(n)
            if k:
                total += k + _fold_function(n, props)
            total += _comprehension_arguments(n)
            total += _tuple_repetition(n)
            total += _getitem_calls(n)
    return total
