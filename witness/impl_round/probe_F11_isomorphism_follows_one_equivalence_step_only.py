"""Witness for finding F11 (C13 / C12): on the library as pinned, both parallel finders return,
for words avoiding {00,11,001} (pattern-minimising inferral + letter-swap symmetry) against words
avoiding {00,11} (plain pack), a pair of valid specifications that Isomorphism.check rejects and for
which Bijection.construct gives None -- the pair is isomorphic, but the first specification has two
consecutive equivalence rules (the class in between also occurs as a child of a real rule, so it is
not folded into an equivalence path) and Isomorphism._get_eq_descendant followed one step only.
Run: cd <checkout> && PYTHONPATH=<checkout> /venv/bin/python this_file.py ; exits 1 where the defect is present."""
import sys, os
sys.path.insert(0, os.getcwd())
from typing import Optional, Tuple
from comb_spec_searcher import (
    AtomStrategy, CombinatorialSpecificationSearcher, StrategyPack,
    DisjointUnionStrategy,
)
from comb_spec_searcher.strategies.strategy import SymmetryStrategy
from comb_spec_searcher.bijection import ParallelSpecFinder, EqPathParallelSpecFinder
from comb_spec_searcher.isomorphism import Bijection, Isomorphism
from example import AvoidingWithPrefix, ExpansionStrategy, RemoveFrontOfPrefix, Word


class RemoveRedundantPatterns(DisjointUnionStrategy[AvoidingWithPrefix, Word]):
    """Inferral: drop patterns that contain another pattern as a factor."""

    def decomposition_function(self, c):
        if c.just_prefix:
            return None
        keep = tuple(
            p for p in c.patterns
            if not any(q != p and q in p for q in c.patterns)
        )
        if keep == c.patterns:
            return None
        return (AvoidingWithPrefix(c.prefix, keep, c.alphabet),)

    def formal_step(self):
        return "remove redundant patterns"

    def forward_map(self, c, obj, children=None):
        return (obj,)

    @classmethod
    def from_dict(cls, d):
        return cls()

    def __repr__(self):
        return "RemoveRedundantPatterns()"

    def __str__(self):
        return self.formal_step()


class SwapLetters(SymmetryStrategy[AvoidingWithPrefix, Word]):
    """Symmetry: exchange the two letters of a binary alphabet."""

    @staticmethod
    def _sw(w, al):
        t = {al[0]: al[1], al[1]: al[0]}
        return "".join(t[x] for x in w)

    def decomposition_function(self, c):
        if len(c.alphabet) != 2:
            return None
        al = c.alphabet
        return (
            AvoidingWithPrefix(
                self._sw(c.prefix, al), [self._sw(p, al) for p in c.patterns], al,
                c.just_prefix,
            ),
        )

    def formal_step(self):
        return "swap letters"

    def forward_map(self, c, obj, children=None):
        return (Word(self._sw(obj, c.alphabet)),)

    def backward_map(self, c, objs, children=None):
        yield Word(self._sw(objs[0], c.alphabet))

    @classmethod
    def from_dict(cls, d):
        return cls()

    def __repr__(self):
        return "SwapLetters()"

    def __str__(self):
        return self.formal_step()


def searcher(prefix, avoid, alphabet, inferral=True, sym=False):
    pack = StrategyPack(
        initial_strats=[RemoveFrontOfPrefix()],
        inferral_strats=[RemoveRedundantPatterns()] if inferral else [],
        expansion_strats=[[ExpansionStrategy()]],
        ver_strats=[AtomStrategy()],
        symmetries=[SwapLetters()] if sym else [],
        name="words",
    )
    return CombinatorialSpecificationSearcher(
        AvoidingWithPrefix(prefix, avoid, alphabet), pack
    )


def brute(c, n):
    return sum(1 for _ in c.objects_of_size(n))


def check_pair(finder_cls, mk1, mk2, expect_found=True, N=7):
    s1, s2 = mk1(), mk2()
    res = finder_cls(s1, s2).find()
    if res is None:
        assert not expect_found, "finder returned None but a matched pair exists"
        return None
    assert expect_found
    sp1, sp2 = res
    for sp, s in ((sp1, s1), (sp2, s2)):
        assert sp.root == s.start_class, "spec root is not the start class"
        assert sp.root in sp.rules_dict
        for n in range(N):
            assert sp.count_objects_of_size(n) == brute(s.start_class, n), (
                "wrong counts", n)
            assert set(sp.generate_objects_of_size(n)) == set(
                s.start_class.objects_of_size(n))
        sp.sanity_check(5)
    assert Isomorphism.check(sp1, sp2), "specs not isomorphic"
    bij = Bijection.construct(sp1, sp2)
    assert bij is not None
    for n in range(N):
        dom = set(sp1.generate_objects_of_size(n))
        cod = set(sp2.generate_objects_of_size(n))
        assert {bij.map(w) for w in dom} == cod
        assert all(bij.inverse_map(bij.map(w)) == w for w in dom)
    return sp1, sp2




def main():
    bad = 0
    for finder in (ParallelSpecFinder, EqPathParallelSpecFinder):
        for order in (0, 1):
            mk1 = lambda: searcher("", ["00", "11", "001"], "01", inferral=True, sym=True)
            mk2 = lambda: searcher("", ["00", "11"], "01", inferral=False, sym=False)
            if order:
                mk1, mk2 = mk2, mk1
            s1, s2 = mk1(), mk2()
            res = finder(s1, s2).find()
            assert res is not None
            sp1, sp2 = res
            for sp, s in ((sp1, s1), (sp2, s2)):
                for n in range(7):
                    assert sp.count_objects_of_size(n) == brute(s.start_class, n)
            iso = Isomorphism.check(sp1, sp2)
            bij = Bijection.construct(sp1, sp2)
            ok = iso and bij is not None
            if ok:
                for n in range(7):
                    dom = set(sp1.generate_objects_of_size(n))
                    cod = set(sp2.generate_objects_of_size(n))
                    ok = ok and {bij.map(w) for w in dom} == cod and all(bij.inverse_map(bij.map(w)) == w for w in dom)
            print(finder.__name__, "order", order, "isomorphic:", iso, "bijection:", bij is not None, "round trip:", ok)
            bad += not ok
    print("FAIL" if bad else "PASS")
    sys.exit(1 if bad else 0)


main()

