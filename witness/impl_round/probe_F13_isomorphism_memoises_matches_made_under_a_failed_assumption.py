"""Witness for finding F13 (C12): on the library as pinned, Isomorphism.check accepts two
specifications that are not isomorphic -- words over {0,1} avoiding {011,110} against words
avoiding {001,111}, both found with the README's pack: check(a, b) is True, check(b, a) is
False, the counts differ from size 5 on (14 vs 13) and Bijection.construct(a, b) returns a
"bijection".  _are_isomorphic accepts a pair that is being compared further up (recursive
match) and memoises every successful pair in _order_map; a pair matched only under such an
assumption stayed memoised when the assumed ancestor failed and was reused as 'already
matched'.  Among the 406 pairs of two-pattern classes of length 3 this is the only bad one.
Run: cd <checkout> && PYTHONPATH=<checkout> /venv/bin/python this_file.py ; exits 1 where the defect is present."""
import sys, os
sys.path.insert(0, os.getcwd())
from comb_spec_searcher import CombinatorialSpecificationSearcher
from comb_spec_searcher.isomorphism import Bijection, Isomorphism
from example import AvoidingWithPrefix, pack

def spec(pats, alphabet="01"):
    start = AvoidingWithPrefix("", pats, list(alphabet))
    return CombinatorialSpecificationSearcher(start, pack).auto_search()

a = spec(["011", "110"]); b = spec(["001", "111"])
print([a.count_objects_of_size(n) for n in range(8)])
print([b.count_objects_of_size(n) for n in range(8)])
print("check(a,b)", Isomorphism.check(a, b), "check(b,a)", Isomorphism.check(b, a))
bij = Bijection.construct(a, b)
print("bijection a->b", bij is not None)

ca=[a.count_objects_of_size(n) for n in range(8)]; cb=[b.count_objects_of_size(n) for n in range(8)]
ab, ba = Isomorphism.check(a, b), Isomorphism.check(b, a)
sys.exit(1 if (ab != ba or (ab and ca != cb) or (bij is not None and ca != cb)) else 0)
