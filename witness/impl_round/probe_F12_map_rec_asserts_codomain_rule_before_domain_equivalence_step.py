"""Witness for finding F12 (C12): on the library as pinned, Bijection.construct returns a bijection
between the specification of words over {a,b} avoiding {aa,ab,b} found with the README's expansion
strategy (the class "prefix a" is there only *equivalent* to the atom "a": a one-child union) and the
specification of the same class found with a strategy that hands the finished word out directly (a
plain atom).  Isomorphism.check accepts the pair in both orders, but bij.map('a') (and inverse_map
in the other order) raises AssertionError: ParseTreeMap.map_rec asserted that the codomain's rule is
a Rule before it could take the domain's equivalence step.
Run: cd <checkout> && PYTHONPATH=<checkout> /venv/bin/python this_file.py ; exits 1 where the defect is present."""
import sys, os
sys.path.insert(0, os.getcwd())
from comb_spec_searcher import (
    AtomStrategy, CombinatorialSpecificationSearcher, StrategyPack, DisjointUnionStrategy,
)
from comb_spec_searcher.isomorphism import Bijection, Isomorphism
from example import AvoidingWithPrefix, ExpansionStrategy, RemoveFrontOfPrefix, Word


class TwoStepExpansion(DisjointUnionStrategy[AvoidingWithPrefix, Word]):
    """Like ExpansionStrategy, but a child prefix that admits no further letter is handed out as
    the finished word straight away (a correct disjoint union)."""

    def decomposition_function(self, c):
        if c.just_prefix:
            return None
        kids = [AvoidingWithPrefix(c.prefix, c.patterns, c.alphabet, True)]
        for a in c.alphabet:
            k = AvoidingWithPrefix(c.prefix + a, c.patterns, c.alphabet)
            if not k.is_empty() and all(
                AvoidingWithPrefix(c.prefix + a + b, c.patterns, c.alphabet).is_empty() for b in c.alphabet
            ):
                k = AvoidingWithPrefix(c.prefix + a, c.patterns, c.alphabet, True)
            kids.append(k)
        return tuple(kids)

    def formal_step(self):
        return "two step expansion"

    def forward_map(self, c, obj, children=None):
        if children is None:
            children = self.decomposition_function(c)
        for i, ch in enumerate(children):
            if ch.just_prefix:
                if obj == ch.prefix:
                    return tuple(obj if j == i else None for j in range(len(children)))
            elif obj[: len(ch.prefix)] == ch.prefix and len(obj) >= len(ch.prefix):
                if not any(k.just_prefix and k.prefix == obj for k in children):
                    return tuple(obj if j == i else None for j in range(len(children)))
        raise ValueError

    @classmethod
    def from_dict(cls, d):
        return cls()

    def __repr__(self):
        return "TwoStepExpansion()"

    def __str__(self):
        return self.formal_step()


def spec(pack_strat, patterns):
    pack = StrategyPack(initial_strats=[RemoveFrontOfPrefix()], inferral_strats=[], expansion_strats=[[pack_strat]],
                        ver_strats=[AtomStrategy()], name="p")
    start = AvoidingWithPrefix("", patterns, ["a", "b"])
    return CombinatorialSpecificationSearcher(start, pack).auto_search()


s1 = spec(ExpansionStrategy(), ["aa", "ab", "b"])
s2 = spec(TwoStepExpansion(), ["aa", "ab", "b"])
print(s1); print(s2)
for n in range(4):
    assert s1.count_objects_of_size(n) == s2.count_objects_of_size(n)
print("iso 1->2", Isomorphism.check(s1, s2), "iso 2->1", Isomorphism.check(s2, s1))
bad = 0
for a, b, name in ((s1, s2, "1->2"), (s2, s1, "2->1")):
    bij = Bijection.construct(a, b)
    if bij is None:
        print(name, "no bijection"); continue
    for n in range(3):
        for o in a.generate_objects_of_size(n):
            try:
                img = bij.map(o)
                back = bij.inverse_map(img)
                print(name, repr(o), "->", repr(img), "->", repr(back))
                assert back == o
            except AssertionError as e:
                import traceback; traceback.print_exc(limit=3)
                bad += 1
sys.exit(1 if bad else 0)
