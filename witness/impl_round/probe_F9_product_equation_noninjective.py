"""Triage of finding F9 (documentation only, not a registered command).
CartesianProduct counts correctly when two parent statistics map onto the same child
statistic (get_terms re-keys through a multi-valued inverse table), but get_equation
substitutes {child: parent} built by a dict comprehension, which keeps only one of them.
Run: cd /repo && PYTHONPATH=/repo /venv/bin/python /verif/witness/impl_round/probe_F9_product_equation_noninjective.py"""
from collections import Counter
import sympy
from comb_spec_searcher.strategies.constructor import CartesianProduct, DisjointUnion


class Cls:
    def __init__(self, params, minsize, atom=False):
        self.extra_parameters = params
        self._m = minsize
        self._atom = atom
    def minimum_size_of_object(self): return self._m
    def is_atom(self): return self._atom
    def get_minimum_value(self, k): return 0


parent = Cls(("k1", "k2"), 0)
A = Cls((), 0)
B = Cls(("c",), 0)
tables = ({}, {"k1": "c", "k2": "c"})
cons = CartesianProduct(parent, (A, B), tables)
# children enumerations: A has one object of each size; B has, for size n, one object with c = n
a_terms = lambda n: Counter({(): 1})
b_terms = lambda n: Counter({(n,): 1})
x, k1, k2, c = sympy.symbols("x k1 k2 c")
N = 4
true = sum(cnt * x**n * k1**p[0] * k2**p[1] for n in range(N + 1) for p, cnt in cons.get_terms(None, (a_terms, b_terms), n).items())
FA = sum(x**n for n in range(N + 1))
FB = sum(x**n * c**n for n in range(N + 1))
lhs, (fa, fb) = sympy.Function("F")(x, k1, k2), (sympy.Function("A")(x), sympy.Function("B")(x, c))
eq = cons.get_equation(lhs, (fa, fb))
print("equation:", eq)
rhs = eq.rhs.subs({fa: FA}).replace(sympy.Function("B"), lambda xx, cc: FB.subs({c: cc}))
diff = sympy.expand(sympy.series(sympy.expand(rhs), x, 0, N + 1).removeO() - true)
print("counted series :", sympy.expand(true))
print("equation series:", sympy.expand(sympy.series(sympy.expand(rhs), x, 0, N + 1).removeO()))
print("AGREE" if diff == 0 else "DISAGREE")
u = DisjointUnion(parent, (B,), ({"k1": "c", "k2": "c"},))
print("union handles it:", u.get_equation(lhs, (fb,)))
