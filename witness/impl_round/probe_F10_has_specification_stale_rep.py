"""Triage of finding F10 (documentation only).  RuleDBBase.has_specification evaluates
`self.equivdb[self.root_label] in self.pruned_dict` left to right: the representative is
looked up BEFORE the pruned_dict property runs rules_up_to_equivalence() -> connect_cycles(),
which may merge the start label into another representative.  The membership test then uses
a stale representative and answers False although the start class is in the pruned universe.
Run: cd /repo && PYTHONPATH=/repo /venv/bin/python /verif/witness/impl_round/probe_F10_has_specification_stale_rep.py"""
import logging, logzero
logzero.loglevel(logging.ERROR)
from comb_spec_searcher import CombinatorialSpecificationSearcher, StrategyPack, AtomStrategy, DisjointUnionStrategy
from example import AvoidingWithPrefix, ExpansionStrategy, RemoveFrontOfPrefix


class OneWay(DisjointUnionStrategy):
    """A single-child rule that is NOT two-way (so it is recorded as a one-way edge)."""
    def __init__(self, table):
        super().__init__(ignore_parent=False, inferrable=False, possibly_empty=False, workable=False)
        self.table = table
    def is_two_way(self, comb_class): return False
    def decomposition_function(self, c):
        t = self.table.get(c)
        return (t,) if t is not None else None
    def formal_step(self): return "one way"
    def forward_map(self, c, o, children=None): return (o,)
    @classmethod
    def from_dict(cls, d): raise NotImplementedError

A = AvoidingWithPrefix("", ["aa"], ["a", "b"])
B = AvoidingWithPrefix("", ["aa", "aaa"], ["a", "b"])   # same objects, different class
C = AvoidingWithPrefix("", ["aa", "aaaa"], ["a", "b"])
pack = StrategyPack(initial_strats=[RemoveFrontOfPrefix()], inferral_strats=[], expansion_strats=[[ExpansionStrategy()]],
                    ver_strats=[AtomStrategy()], name="p")
for order in ((A, B, C), ):
    s = CombinatorialSpecificationSearcher(A, pack)
    db = s.ruledb
    la, lb, lc = (s.classdb.get_label(x) for x in (A, B, C))
    ow = OneWay({A: B, B: C, C: A})
    # a specification for C exists (expand it with the example pack), A -> B -> C -> A is a one-way cycle
    s2 = CombinatorialSpecificationSearcher(C, pack)
    # record the cycle in s, then let the searcher expand C normally
    for x in (A, B):
        for start, ends, rule in s._expand_class_with_strategy(x, ow):
            s.add_rule(start, ends, rule)
    s.classqueue.add(lc)
    for _ in range(6):
        try:
            s.do_level()
        except Exception:
            break
    # now close the cycle and ask
    for start, ends, rule in s._expand_class_with_strategy(C, ow):
        s.add_rule(start, ends, rule)
    first = db.has_specification()
    second = db.has_specification()
    print("start label", la, "representative after connect_cycles", db.equivdb[la], "has_specification first call:", first, "second call:", second)
    print("RESULT:", "STALE (defect)" if first != second else "consistent")
