import os, shutil, subprocess, sys, concurrent.futures as cf
R = "/repo/comb_spec_searcher/"
M = {
 "C10_sign":   ("strategies/rule.py", "pshift = -original_shifts[self.idx]", "pshift = original_shifts[self.idx]"),
 "C10_nminus1":("strategies/constructor/cartesian.py", "+ (n - 1,) +", "+ (n,) +"),
 "C10_guard":  ("strategies/constructor/cartesian.py", "if n < self._min_sizes[self.idx]:\n            return Counter()", "if False:\n            return Counter()"),
 "C10_prodshift": ("strategies/strategy.py", "return tuple(point_sum - mpoint for mpoint in min_points)", "return tuple(mpoint for mpoint in min_points)"),
 "C04_start":  ("comb_spec_searcher.py", "if rule.comb_class == comb_class:", "if True:"),
 "C16_ignore": ("class_queue.py", "if wp.label not in self.ignore:", "if True:"),
 "C16_raise":  ("class_queue.py", "        if not any(self.curr_level):\n            raise StopIteration\n        self.queue_sizes.append(len(self.curr_level[0]))", "        self.queue_sizes.append(len(self.curr_level[0]))\n        if not any(self.curr_level):\n            raise StopIteration"),
 "C08_randint":("strategies/constructor/disjoint.py", "randint(1, parent_count)", "randint(0, parent_count)"),
 "C08_lt":     ("strategies/constructor/cartesian.py", "if random_choice <= total:", "if random_choice < total:"),
 "C07_reversed": ("strategies/rule.py", "for rule in reversed(self.rules):", "for rule in self.rules:"),
 "C18_idx":    ("strategies/rule.py", 'idx = d.pop("idx")', 'idx = d.pop("idx") * 0'),
 "C19_copy":   ("specification.py", "spec_rules.extend(map(copy, rule.rules))", "spec_rules.extend(rule.rules)"),
 "C11_order":  ("rule_db/forest.py", "        RuleBucket.REVERSE,\n        RuleBucket.NORMAL,", "        RuleBucket.NORMAL,\n        RuleBucket.REVERSE,"),
 "C09_swap":   ("strategies/constructor/disjoint.py", "reversed_extra_param[child_var].append(parent_var)", "reversed_extra_param[parent_var].append(child_var)"),
 "C20_subs":   ("strategies/constructor/cartesian.py", "{child: parent for parent, child in extra_parameters.items()}", "{parent: child for parent, child in extra_parameters.items()}"),
 "C05_itroot": ("rule_db/base.py", "        return iterative_proof_tree_finder(\n            self.pruned_dict, root=self.equivdb[self.root_label]", "        return iterative_proof_tree_finder(\n            self.pruned_dict, root=self.root_label"),
 "C17_time":   ("comb_spec_searcher.py", "            if self.expand_verified or not self.ruledb.is_verified(label):", "            if time.time() - expansion_start > expansion_time:\n                break\n            if self.expand_verified or not self.ruledb.is_verified(label):"),
 "C15_compress": ("class_db.py", "            comb_class = self._compress(key)\n            info = self.class_to_info.get(comb_class)", "            comb_class = key\n            info = self.class_to_info.get(comb_class)"),
 "C14_flat":   ("rule_db/forget.py", "return self._flatten(cast(RuleKey, key)) in self.rules", "return self._flatten(cast(RuleKey, key))[::-1] in self.rules"),
}
def one(name):
    rel, a, b = M[name]
    d = f"/tmp/mut/{name}"
    shutil.rmtree(d, ignore_errors=True)
    shutil.copytree("/repo", d, ignore=shutil.ignore_patterns(".git", "*.egg-info", "__pycache__"))
    p = os.path.join(d, "comb_spec_searcher", rel)
    s = open(p).read()
    if s.count(a) != 1: return name, f"ANCHOR x{s.count(a)}"
    open(p, "w").write(s.replace(a, b))
    env = dict(os.environ, PYTHONPATH=d)
    r = subprocess.run(["/venv/bin/python", "-m", "pytest", "-q", "-x", "-p", "no:cacheprovider", "--timeout=600"], cwd=d, env=env, capture_output=True, text=True)
    tail = [l for l in r.stdout.strip().splitlines() if l.strip()][-1:]
    chk = subprocess.run(["/venv/bin/python", "-c", "import comb_spec_searcher; print(comb_spec_searcher.__file__)"], cwd=d, env=env, capture_output=True, text=True).stdout.strip()
    shutil.rmtree(d, ignore_errors=True)
    return name, f"rc={r.returncode} {tail} [{chk}]"
with cf.ThreadPoolExecutor(16) as ex:
    for name, out in ex.map(one, M):
        print(name, out, flush=True)
