import logzero, logging, traceback
logzero.loglevel(logging.ERROR)
from comb_spec_searcher import CombinatorialSpecificationSearcher, StrategyPack, AtomStrategy, StrategyFactory
from comb_spec_searcher.strategies.rule import Rule
from comb_spec_searcher.rule_db import RuleDBForgetStrategy, RuleDBForest, RuleDB
from example import AvoidingWithPrefix, ExpansionStrategy, RemoveFrontOfPrefix, Word
class LazyFactory(StrategyFactory):
    """yields ready-made (lazy) rules, some of which do not apply"""
    def __call__(self, c):
        yield Rule(RemoveFrontOfPrefix(), c)      # children computed lazily; may not apply
        yield Rule(ExpansionStrategy(), c)
    def __str__(self): return "lazy"
    def __repr__(self): return "LazyFactory()"
    @classmethod
    def from_dict(cls, d): return cls()
pack = StrategyPack(initial_strats=[], inferral_strats=[], expansion_strats=[[LazyFactory()]], ver_strats=[AtomStrategy()], name="f")
for db in (RuleDB, RuleDBForgetStrategy, RuleDBForest):
    s = CombinatorialSpecificationSearcher(AvoidingWithPrefix("",["aa"],["a","b"]), pack, ruledb=db())
    logzero.loglevel(logging.ERROR)
    try:
        spec = s.auto_search(max_expansion_time=5)
        print(db.__name__, [spec.count_objects_of_size(i) for i in range(7)])
    except Exception as e:
        print(db.__name__, "raised", type(e).__name__, str(e).split("\n")[0][:100]); traceback.print_exc(limit=-4)
