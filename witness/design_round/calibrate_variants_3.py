import os, shutil, subprocess, sys, concurrent.futures as cf
R = "/repo/comb_spec_searcher/"
M = {
 "K4_a": ("rule_db/base.py", "                tuple(sorted(self.equivdb[e] for e in ends))\n            )\n        return rules_dict", "                tuple(self.equivdb[e] for e in ends)\n            )\n        return rules_dict"),
 "K4_b": ("tree_searcher.py", "(node.label, tuple(sorted(child.label for child in node.children)))", "(node.label, tuple(child.label for child in node.children))"),
 "T7_a": ("rule_db/forget.py", "                        sorted(map(self.classdb.get_label, nonempty_children))", "                        map(self.classdb.get_label, nonempty_children)"),
 "C09_cmp": ("strategies/constructor/disjoint.py", "            if idx == self.idx:\n                continue\n            reversed_extra_param: Dict[str, List[str]] = defaultdict(list)\n            for parent_var, child_var in extra_param.items():\n                reversed_extra_param[child_var].append(parent_var)", "            if idx == self.idx:\n                continue\n            reversed_extra_param: Dict[str, List[str]] = defaultdict(list)\n            for parent_var, child_var in extra_param.items():\n                reversed_extra_param[parent_var].append(child_var)"),
 "C09_cnt": ("strategies/constructor/cartesian.py", "        return self.build_param_map(\n            parent_pos_to_child_pos, len(child.extra_parameters)\n        )", "        return self.build_param_map(\n            parent_pos_to_child_pos, len(parent.extra_parameters)\n        )"),
}
def one(name):
    rel, a, b = M[name]
    d = f"/tmp/mut/{name}"
    shutil.rmtree(d, ignore_errors=True)
    shutil.copytree("/repo", d, ignore=shutil.ignore_patterns(".git", "*.egg-info", "__pycache__"))
    p = os.path.join(d, "comb_spec_searcher", rel)
    s = open(p).read()
    if s.count(a) != 1: return name, f"ANCHOR x{s.count(a)}"
    open(p, "w").write(s.replace(a, b))
    env = dict(os.environ, PYTHONPATH=d)
    r = subprocess.run(["/venv/bin/python", "-m", "pytest", "-q", "-x", "-p", "no:cacheprovider", "--timeout=600"], cwd=d, env=env, capture_output=True, text=True)
    tail = [l for l in r.stdout.strip().splitlines() if l.strip()][-1:]
    chk = subprocess.run(["/venv/bin/python", "-c", "import comb_spec_searcher; print(comb_spec_searcher.__file__)"], cwd=d, env=env, capture_output=True, text=True).stdout.strip()
    shutil.rmtree(d, ignore_errors=True)
    return name, f"rc={r.returncode} {tail} [{chk}]"
with cf.ThreadPoolExecutor(16) as ex:
    for name, out in ex.map(one, M):
        print(name, out, flush=True)
