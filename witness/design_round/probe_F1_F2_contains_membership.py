import logzero, logging
logzero.loglevel(logging.ERROR)
from comb_spec_searcher import CombinatorialSpecificationSearcher
from comb_spec_searcher.rule_db import RuleDBForgetStrategy
from example import AvoidingWithPrefix, pack
for db in (None, RuleDBForgetStrategy()):
    s = CombinatorialSpecificationSearcher(AvoidingWithPrefix("",["aa"],["a","b"]), pack, ruledb=db)
    s.do_level()
    logzero.loglevel(logging.ERROR)
    k = next(iter(s.ruledb))
    try:
        print(type(s.ruledb).__name__, s.ruledb.contains(*k))
    except Exception as e:
        print(type(s.ruledb).__name__, "contains raised", type(e).__name__, e)
    c = s.classdb
    for key in (0, len(c.label_to_info), 10**6, -1, -len(c.label_to_info)-5):
        try: print("  ", key, key in c)
        except Exception as e: print("  ", key, "raised", type(e).__name__, e)
