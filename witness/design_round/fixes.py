"""monkeypatch candidate fixes F1..F8 for exploration"""
from comb_spec_searcher import specification as S
from comb_spec_searcher.strategies import EmptyStrategy
def get_rule(self, comb_class):
    if isinstance(comb_class, int):
        comb_class = self.get_comb_class(comb_class)
    if comb_class not in self.rules_dict:
        assert comb_class.is_empty()
        self.rules_dict[comb_class] = EmptyStrategy()(comb_class)
    return self.rules_dict[comb_class]
S.CombinatorialSpecification.get_rule = get_rule
