import logzero, logging
exec(open('/tmp/p4.py').read().split("for F in (ParallelSpecFinder")[0])
from comb_spec_searcher.rule_db import base as B
from comb_spec_searcher import bijection as BJ
from comb_spec_searcher.specification import CombinatorialSpecification
from comb_spec_searcher.specification_extrator import SpecificationRuleExtractor
from comb_spec_searcher.tree_searcher import iterative_prune, prune
from comb_spec_searcher.isomorphism import Bijection
def pruned_dict(self):
    if self._pruned_dict is None:
        rules_dict = self.rules_up_to_equivalence()
        if self.iterative:
            rules_dict = iterative_prune(rules_dict, root=self.equivdb[self.root_label])
        else:
            prune(rules_dict)
        self._pruned_dict = rules_dict
        for ver_label in rules_dict.keys():
            self.equivdb.set_verified(ver_label)
    return self._pruned_dict
B.RuleDBBase.pruned_dict = property(pruned_dict)
def _create_spec(d, pi):
    rules = SpecificationRuleExtractor(pi.searcher.start_label, BJ.ParallelSpecFinder._create_tree(d, pi.root_eq_label), pi.ruledb, pi.searcher.classdb).rules()
    return CombinatorialSpecification(pi.root_class, rules)
BJ.ParallelSpecFinder._create_spec = staticmethod(_create_spec)
s = CombinatorialSpecificationSearcher(AvoidingWithPrefix("",["aa","aab"],["a","b"]), mk(True)); logzero.loglevel(logging.ERROR)
spec = s.auto_search(max_expansion_time=5); print("iter fixed", [spec.count_objects_of_size(i) for i in range(7)])
for F in (ParallelSpecFinder, EqPathParallelSpecFinder):
  for p1,p2 in ((["aa","aab"],["bb"]),(["aa"],["bb","abb"]),(["aa","aab"],["bb","bba"])):
    s1 = CombinatorialSpecificationSearcher(AvoidingWithPrefix("",p1,["a","b"]), mk())
    s2 = CombinatorialSpecificationSearcher(AvoidingWithPrefix("",p2,["a","b"]), mk()); logzero.loglevel(logging.ERROR)
    r = F(s1, s2).find()
    b = Bijection.construct(*r)
    ok = all(sorted(b.map(w) for w in r[0].generate_objects_of_size(n))==sorted(r[1].generate_objects_of_size(n)) for n in range(7))
    print(F.__name__, p1, p2, "pair", [r[0].count_objects_of_size(i) for i in range(7)], "bij ok", ok)
