import logzero, logging, traceback, itertools
logzero.loglevel(logging.ERROR)
from comb_spec_searcher import CombinatorialSpecificationSearcher, StrategyPack, AtomStrategy, DisjointUnionStrategy
from comb_spec_searcher.bijection import ParallelSpecFinder, EqPathParallelSpecFinder
from example import AvoidingWithPrefix, ExpansionStrategy, RemoveFrontOfPrefix, Word
class Reduce(DisjointUnionStrategy):
    def __init__(self): super().__init__(ignore_parent=True, inferrable=True, possibly_empty=False, workable=True)
    def decomposition_function(self, c):
        red = [p for p in c.patterns if not any(q != p and q in p for q in c.patterns)]
        if len(red) == len(c.patterns): return None
        return (AvoidingWithPrefix(c.prefix, red, c.alphabet, c.just_prefix),)
    def formal_step(self): return "reduce"
    def forward_map(self, c, w, children=None): return (w,)
    @classmethod
    def from_dict(cls, d): return cls()
def mk(iterative=False):
    return StrategyPack(initial_strats=[RemoveFrontOfPrefix()], inferral_strats=[Reduce()], expansion_strats=[[ExpansionStrategy()]],
        ver_strats=[AtomStrategy()], name="p", iterative=iterative)
for F in (ParallelSpecFinder, EqPathParallelSpecFinder):
  for p1,p2 in ((["aa","aab"],["bb"]),(["aa"],["bb","abb"]),(["aa","aab"],["bb","bba"])):
    s1 = CombinatorialSpecificationSearcher(AvoidingWithPrefix("",p1,["a","b"]), mk())
    s2 = CombinatorialSpecificationSearcher(AvoidingWithPrefix("",p2,["a","b"]), mk())
    logzero.loglevel(logging.ERROR)
    try:
        r = F(s1, s2).find()
        print(F.__name__, p1, p2, "->", None if r is None else "pair", "rep1", s1.ruledb.equivdb[s1.start_label], "rep2", s2.ruledb.equivdb[s2.start_label])
    except Exception as e:
        print(F.__name__, p1, p2, "raised", type(e).__name__, str(e).split("\n")[0][:100]); traceback.print_exc(limit=-3)
# plain searches work?
for p in (["aa","aab"],):
    for it in (False, True):
        s = CombinatorialSpecificationSearcher(AvoidingWithPrefix("",p,["a","b"]), mk(it))
        logzero.loglevel(logging.ERROR)
        try:
            spec = s.auto_search(max_expansion_time=5); print("plain it=",it, [spec.count_objects_of_size(i) for i in range(7)])
        except Exception as e: print("plain it=",it,"raised", type(e).__name__)
