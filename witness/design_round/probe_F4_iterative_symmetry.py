import logzero, logging, traceback
logzero.loglevel(logging.ERROR)
from comb_spec_searcher import CombinatorialSpecificationSearcher, StrategyPack, AtomStrategy, SymmetryStrategy
from comb_spec_searcher.bijection import ParallelSpecFinder, EqPathParallelSpecFinder
from example import AvoidingWithPrefix, ExpansionStrategy, RemoveFrontOfPrefix, Word
T = str.maketrans("ab","ba")
class Swap(SymmetryStrategy):
    def decomposition_function(self, c):
        return (AvoidingWithPrefix(c.prefix.translate(T), [p.translate(T) for p in c.patterns], c.alphabet, c.just_prefix),)
    def formal_step(self): return "swap"
    def forward_map(self, c, w, children=None): return (Word(w.translate(T)),)
    def backward_map(self, c, ws, children=None): yield Word(ws[0].translate(T))
    @classmethod
    def from_dict(cls, d): return cls()
def mk(iterative=False):
    return StrategyPack(initial_strats=[RemoveFrontOfPrefix()], inferral_strats=[], expansion_strats=[[ExpansionStrategy()]],
        ver_strats=[AtomStrategy()], name="p", symmetries=[Swap()], iterative=iterative)
# C05 iterative
for pats in (["a"],["aa"],["ab"]):
    s = CombinatorialSpecificationSearcher(AvoidingWithPrefix("",pats,["a","b"]), mk(True))
    logzero.loglevel(logging.ERROR)
    try:
        spec = s.auto_search(max_expansion_time=5)
        print("iter", pats, "root", s.start_label, "rep", s.ruledb.equivdb[s.start_label], [spec.count_objects_of_size(i) for i in range(6)])
    except Exception as e:
        print("iter", pats, "root", s.start_label, "rep", s.ruledb.equivdb[s.start_label], "raised", type(e).__name__, str(e)[:80])
# C13 parallel
for F in (ParallelSpecFinder, EqPathParallelSpecFinder):
    s1 = CombinatorialSpecificationSearcher(AvoidingWithPrefix("",["aa"],["a","b"]), mk())
    s2 = CombinatorialSpecificationSearcher(AvoidingWithPrefix("",["bb"],["a","b"]), mk())
    logzero.loglevel(logging.ERROR)
    try:
        r = F(s1, s2).find()
        print(F.__name__, "->", None if r is None else "pair", "rep1", s1.ruledb.equivdb[s1.start_label])
    except Exception as e:
        print(F.__name__, "raised", type(e).__name__, str(e)[:100]); traceback.print_exc(limit=-3)
