import itertools, random, sys, traceback
from univ import *
quiet()
random.seed(int(sys.argv[1]) if len(sys.argv)>1 else 0)
allp = ["".join(w) for L in (1,2,3) for w in itertools.product("ab", repeat=L)]
res = {}
for trial in range(int(sys.argv[2]) if len(sys.argv)>2 else 60):
    pats = random.sample(allp, random.randint(1,3))
    opts = dict(sym=random.random()<.5, inf=random.random()<.5, fac=random.random()<.3, longv=random.random()<.3, iterative=random.random()<.2)
    dbc = random.choice([RuleDB, RuleDBForest, RuleDBForgetStrategy])
    key = None
    try:
        s = CombinatorialSpecificationSearcher(AvoidingWithPrefix("", pats, "ab"), mkpack(**opts), ruledb=dbc()); quiet()
        spec = s.auto_search(max_expansion_time=10, smallest=(random.random()<.3 and not opts['iterative']))
        got = [spec.count_objects_of_size(n) for n in range(7)]
        exp = [brute(pats, n) for n in range(7)]
        key = "ok" if got == exp else f"WRONGCOUNT {got} {exp}"
        if got == exp:
            objs = sorted(spec.generate_objects_of_size(5)); 
            if len(objs) != exp[5] or len(set(objs)) != len(objs): key = "WRONGOBJS"
    except Exception as e:
        key = type(e).__name__ + ": " + str(e).split("\n")[0][:70]
    res.setdefault(key, []).append((pats, {k:v for k,v in opts.items() if v}, dbc.__name__))
for k, v in sorted(res.items(), key=lambda x: -len(x[1])):
    print(len(v), k); 
    for x in v[:4]: print("      ", x)
