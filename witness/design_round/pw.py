"""Throwaway: words with one statistic (#a) whose NAME changes between parent and children."""
import itertools, logging, logzero
from collections import Counter
from typing import Optional, Tuple, Dict
from comb_spec_searcher import (CombinatorialSpecificationSearcher, StrategyPack, AtomStrategy, CombinatorialClass,
    DisjointUnionStrategy, CartesianProductStrategy)
from comb_spec_searcher.rule_db import RuleDB, RuleDBForest, RuleDBForgetStrategy
from example import Word
NAMES = ("x","y","z")
class PW(CombinatorialClass[Word]):
    def __init__(self, prefix, patterns, alphabet, just_prefix=False, pname="x"):
        self.alphabet = tuple(sorted(alphabet)); self.prefix = Word(prefix)
        self.patterns = tuple(sorted(map(Word, patterns))); self.just_prefix = just_prefix; self.pname = pname
    @property
    def extra_parameters(self): return (self.pname,)
    def get_parameters(self, obj): return (obj.count("a"),)
    def get_minimum_value(self, parameter):
        assert parameter == self.pname, (parameter, self.pname)
        return self.prefix.count("a")
    def possible_parameters(self, n):
        for k in range(n+1): yield {self.pname: k}
    def is_empty(self): return any(p in self.prefix for p in self.patterns)
    def is_atom(self): return self.just_prefix
    def minimum_size_of_object(self): return len(self.prefix)
    def objects_of_size(self, n, **parameters):
        if parameters: assert set(parameters) == {self.pname}, (parameters, self.pname)
        def gen():
            if self.just_prefix:
                if n == len(self.prefix) and not self.is_empty(): yield Word(self.prefix)
                return
            if len(self.prefix) > n: return
            for letters in itertools.product(self.alphabet, repeat=n-len(self.prefix)):
                w = Word(self.prefix + "".join(letters))
                if all(p not in w for p in self.patterns): yield w
        for w in gen():
            if not parameters or w.count("a") == parameters[self.pname]: yield w
    def to_jsonable(self):
        d = super().to_jsonable(); d.update(prefix=self.prefix, patterns=self.patterns, alphabet=self.alphabet, just_prefix=int(self.just_prefix), pname=self.pname); return d
    @classmethod
    def from_dict(cls, d): return cls(d["prefix"], d["patterns"], d["alphabet"], bool(d["just_prefix"]), d["pname"])
    def __eq__(self, o): return isinstance(o, PW) and (self.alphabet, self.prefix, self.patterns, self.just_prefix, self.pname) == (o.alphabet, o.prefix, o.patterns, o.just_prefix, o.pname)
    def __hash__(self): return hash((self.alphabet, self.prefix, self.patterns, self.just_prefix, self.pname))
    def __repr__(self): return f"PW({self.prefix!r},{self.patterns},{self.just_prefix},{self.pname})"
    __str__ = __repr__
def nxt(name, i=1): return NAMES[(NAMES.index(name)+i) % 3]
class Exp(DisjointUnionStrategy[PW, Word]):
    def decomposition_function(self, c):
        if c.just_prefix: return None
        ch = [PW(c.prefix, c.patterns, c.alphabet, True, nxt(c.pname))]
        for i, a in enumerate(c.alphabet): ch.append(PW(c.prefix + a, c.patterns, c.alphabet, False, nxt(c.pname, i)))
        return tuple(ch)
    def extra_parameters(self, c, children=None):
        if children is None: children = self.decomposition_function(c)
        return tuple({c.pname: ch.pname} for ch in children)
    def formal_step(self): return "expand"
    def forward_map(self, c, w, children=None):
        if children is None: children = self.decomposition_function(c)
        if len(w) == len(c.prefix): return (w,) + tuple(None for _ in children[1:])
        for idx, ch in enumerate(children[1:]):
            if w[:len(ch.prefix)] == ch.prefix: break
        return tuple(None for _ in range(idx+1)) + (w,) + tuple(None for _ in range(len(children)-idx-2))
    @classmethod
    def from_dict(cls, d): return cls(**d)
class Rem(CartesianProductStrategy[PW, Word]):
    def decomposition_function(self, c):
        if c.just_prefix: return None
        m = max(len(p) for p in c.patterns) if c.patterns else 1
        safe = max(0, len(c.prefix) - m + 1)
        for i in range(safe, len(c.prefix)):
            end = c.prefix[i:]
            if any(end == p[:len(end)] for p in c.patterns): break
            safe = i + 1
        if safe > 0:
            return (PW(c.prefix[:safe], c.patterns, c.alphabet, True, nxt(c.pname)), PW(c.prefix[safe:], c.patterns, c.alphabet, False, nxt(c.pname, 2)))
    def extra_parameters(self, c, children=None):
        if children is None: children = self.decomposition_function(c)
        return tuple({c.pname: ch.pname} for ch in children)
    def formal_step(self): return "remove"
    def backward_map(self, c, ws, children=None): yield Word(ws[0] + ws[1])
    def forward_map(self, c, w, children=None):
        if children is None: children = self.decomposition_function(c)
        return Word(children[0].prefix), Word(w[len(children[0].prefix):])
    @classmethod
    def from_dict(cls, d): return cls(**d)
class PAtom(AtomStrategy):
    def get_terms(self, c, n):
        return Counter([(c.prefix.count("a"),)]) if n == len(c.prefix) else Counter()
    def get_objects(self, c, n):
        from collections import defaultdict
        r = defaultdict(list)
        if n == len(c.prefix): r[(c.prefix.count("a"),)].append(Word(c.prefix))
        return r
    def random_sample_object_of_size(self, c, n, **p): return Word(c.prefix)
    def get_genf(self, c, funcs=None):
        import sympy
        return sympy.var("x")**len(c.prefix) * sympy.var(c.pname)**c.prefix.count("a")
ppack = StrategyPack(initial_strats=[Rem()], inferral_strats=[], expansion_strats=[[Exp()]], ver_strats=[PAtom()], name="pw")
def quiet(): logzero.loglevel(logging.CRITICAL)
