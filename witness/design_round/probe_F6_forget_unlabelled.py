import logzero, logging, traceback
logzero.loglevel(logging.ERROR)
from comb_spec_searcher import CombinatorialSpecificationSearcher, StrategyPack, AtomStrategy, VerificationStrategy
from comb_spec_searcher.rule_db import RuleDBForgetStrategy, RuleDBForest
from example import AvoidingWithPrefix, ExpansionStrategy, RemoveFrontOfPrefix, Word
class LongPrefix(VerificationStrategy):
    def verified(self, c): return not c.just_prefix and len(c.prefix) >= 2
    def formal_step(self): return "long prefix"
    def get_terms(self, c, n): return c.get_terms(n)
    def get_objects(self, c, n): return c.get_objects(n)
    @classmethod
    def from_dict(cls, d): return cls()
pack = StrategyPack(initial_strats=[RemoveFrontOfPrefix()], inferral_strats=[], expansion_strats=[[ExpansionStrategy()]],
        ver_strats=[AtomStrategy(), LongPrefix()], name="p")
for db in (None, RuleDBForgetStrategy, RuleDBForest):
    s = CombinatorialSpecificationSearcher(AvoidingWithPrefix("",["aaa"],["a","b"]), pack, ruledb=db() if db else None)
    logzero.loglevel(logging.ERROR)
    try:
        spec = s.auto_search(max_expansion_time=5)
        print(db.__name__ if db else "RuleDB", [spec.count_objects_of_size(i) for i in range(7)], "classes", len(s.classdb.label_to_info))
    except Exception as e:
        print(db.__name__ if db else "RuleDB", "raised", type(e).__name__, str(e).split("\n")[0][:100]); traceback.print_exc(limit=-3)
