import os, shutil, subprocess, sys, concurrent.futures as cf
R = "/repo/comb_spec_searcher/"
M = {
 "C16_q1": ("class_queue.py", "        self.next_level.pop(label, None)\n", "        pass\n"),
 "C16_q2": ("class_queue.py", "            self.set_not_inferrable(label)\n        if self.can_do_initial", "            pass\n        if self.can_do_initial"),
 "C16_q3": ("class_queue.py", "            self.set_not_initial(label)\n", "            pass\n"),
 "C16_q4": ("class_queue.py", "        elif label not in self.ignore:\n            self.next_level.update((label,))", "        else:\n            self.next_level.update((label,))"),
 "C16_q5": ("class_queue.py", "                if curr_level == self.levels_completed:\n                    raise NoMoreClassesToExpandError from e", "                if True:\n                    raise NoMoreClassesToExpandError from e"),
 "C08_u1": ("strategies/rule.py", "return random.choice(objs)", "return objs[0]"),
 "C08_u2": ("specification.py", "if self.count_objects_of_size(n, **parameters) > 0:", "if self.count_objects_of_size(n, **parameters) >= 0:"),
 "C17_r1": ("comb_spec_searcher.py", "            if label != last_label:\n", "            if last_label is not None and time.time() - expansion_start > expansion_time:\n                break\n            if label != last_label:\n"),
 "C05_k1": ("rule_db/base.py", "return self.equivdb[self.root_label] in self.pruned_dict", "return self.root_label in self.pruned_dict"),
 "C05_k2": ("rule_db/base.py", "        self._pruned_dict = None\n        ends = self._clean_labels(ends, rule)", "        ends = self._clean_labels(ends, rule)"),
 "C10_s1": ("strategies/constructor/cartesian.py", "self._parent_shift = sum(self._min_sizes) - self._min_sizes[self.idx]", "self._parent_shift = sum(self._min_sizes)"),
 "C10_s2": ("strategies/rule.py", "            s + pshift\n", "            s - pshift\n"),
 "C10_s3": ("strategies/rule.py", "for s in (s for i, s in enumerate(original_shifts) if i != self.idx)", "for s in (s for i, s in enumerate(original_shifts) if i != 0)"),
 "C10_s5": ("strategies/strategy.py", "        return tuple(0 for _ in children)", "        return tuple(1 for _ in children)"),
 "C04_a2": ("comb_spec_searcher.py", "end_labels = [self.classdb.get_label(child) for child in children]", "end_labels = sorted(self.classdb.get_label(child) for child in children)"),
 "C04_a4": ("rule_db/base.py", "if rule.possibly_empty and self.classdb.is_empty(comb_class, child_label):", "if self.classdb.is_empty(comb_class, child_label):"),
 "C04_a6": ("comb_spec_searcher.py", "            if not rule.possibly_empty:\n                self.classdb.set_empty(child_label, empty=False)", "            if True:\n                self.classdb.set_empty(child_label, empty=False)"),
 "C18_j2": ("specification.py", "return CombinatorialSpecification(root, rules, group_equiv=False)", "return CombinatorialSpecification(root, rules, group_equiv=True)"),
 "C19_x1": ("specification.py", "                    continue_expanding_verified=False,\n                )\n", "                    continue_expanding_verified=False,\n                )\n                return new_spec\n"),
 "C11_e3": ("rule_db/forest.py", "                    for i in range(len(normal_rule.children))", "                    for i in range(1, len(normal_rule.children))"),
 "C07_m1": ("strategies/rule.py", "objs[0] if i == self.child_idx else None", "objs[0] if i == 0 else None"),
 "C20_du": ("strategies/constructor/disjoint.py", "                    subs[child] = sympy.var(parent)", "                    subs[parent] = sympy.var(child)"),
 "C14_oe": ("rule_db/forget.py", "                        if self.only_equiv and not rule.is_two_way():\n                            continue\n", ""),
 "C15_t2": ("class_db.py", "            self.set_empty(label, empty)\n        return bool(empty)", "        return bool(empty)"),
}
def one(name):
    rel, a, b = M[name]
    d = f"/tmp/mut/{name}"
    shutil.rmtree(d, ignore_errors=True)
    shutil.copytree("/repo", d, ignore=shutil.ignore_patterns(".git", "*.egg-info", "__pycache__"))
    p = os.path.join(d, "comb_spec_searcher", rel)
    s = open(p).read()
    if s.count(a) != 1: return name, f"ANCHOR x{s.count(a)}"
    open(p, "w").write(s.replace(a, b))
    env = dict(os.environ, PYTHONPATH=d)
    r = subprocess.run(["/venv/bin/python", "-m", "pytest", "-q", "-x", "-p", "no:cacheprovider", "--timeout=600"], cwd=d, env=env, capture_output=True, text=True)
    tail = [l for l in r.stdout.strip().splitlines() if l.strip()][-1:]
    chk = subprocess.run(["/venv/bin/python", "-c", "import comb_spec_searcher; print(comb_spec_searcher.__file__)"], cwd=d, env=env, capture_output=True, text=True).stdout.strip()
    shutil.rmtree(d, ignore_errors=True)
    return name, f"rc={r.returncode} {tail} [{chk}]"
with cf.ThreadPoolExecutor(16) as ex:
    for name, out in ex.map(one, M):
        print(name, out, flush=True)
