import itertools, random, sys, json, pickle, traceback
from univ import *
from comb_spec_searcher import CombinatorialSpecification
quiet(); import fixes
random.seed(int(sys.argv[1]) if len(sys.argv)>1 else 0)
allp = ["".join(w) for L in (1,2,3) for w in itertools.product("ab", repeat=L)]
res = {}
def note(k, x): res.setdefault(k, []).append(x)
for trial in range(int(sys.argv[2]) if len(sys.argv)>2 else 40):
    pats = random.sample(allp, random.randint(1,3))
    opts = dict(sym=random.random()<.5, inf=random.random()<.5, longv=random.random()<.5)
    dbc = random.choice([RuleDB, RuleDBForest])
    tag = (pats, {k:v for k,v in opts.items() if v}, dbc.__name__)
    try:
        s = CombinatorialSpecificationSearcher(AvoidingWithPrefix("", pats, "ab"), mkpack(**opts), ruledb=dbc()); quiet()
        spec = s.auto_search(max_expansion_time=10)
    except Exception as e:
        note("search:"+type(e).__name__, tag); continue
    # C18 json
    try:
        new = CombinatorialSpecification.from_dict(json.loads(json.dumps(spec.to_jsonable())))
        same = [new.count_objects_of_size(n) for n in range(6)] == [spec.count_objects_of_size(n) for n in range(6)]
        note("json:counts_same" if same else "json:COUNTS_DIFFER", tag)
        note("json:eq" if new == spec else "json:neq", tag)
    except Exception as e:
        note("json:"+type(e).__name__+":"+str(e).split("\n")[0][:60], tag)
    # C19 expand
    if opts['longv']:
        try:
            ex = spec.expand_verified()
            ok = [ex.count_objects_of_size(n) for n in range(6)] == [brute(pats,n) for n in range(6)]
            left = list(ex.unexpanded_verified_classes())
            note("expand:ok" if ok and not left else f"expand:BAD ok={ok} left={len(left)}", tag)
        except Exception as e:
            note("expand:"+type(e).__name__+":"+str(e).split("\n")[0][:60], tag)
for k, v in sorted(res.items()):
    print(len(v), k)
    for x in v[:3]: print("      ", x)
