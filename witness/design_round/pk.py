import pickle, itertools, random
from univ import *
quiet()
res = {}
for dbc in (RuleDB, RuleDBForgetStrategy, RuleDBForest):
  for opts in (dict(), dict(sym=True, inf=True), dict(fac=True), dict(longv=True, inf=True)):
    pats = ["aab","bab"]
    def mk():
        s = CombinatorialSpecificationSearcher(AvoidingWithPrefix("", pats, "ab"), mkpack(**opts), ruledb=dbc()); quiet(); return s
    s = mk(); k = 0
    try:
        for wp in s.classqueue:
            label, strategies, inferral = wp
            s._expand(s.classdb.get_class(label), label, strategies, inferral)
            k += 1
            t = pickle.loads(pickle.dumps(s))
            if not (t.classdb == s.classdb and t.classqueue == s.classqueue): res.setdefault((dbc.__name__, "state neq"), []).append(k)
            if k >= 25: break
        res.setdefault((dbc.__name__, "pickled ok upto"), []).append(k)
    except Exception as e:
        res.setdefault((dbc.__name__, type(e).__name__+str(e)[:60]), []).append(k)
for k,v in res.items(): print(k, v)
