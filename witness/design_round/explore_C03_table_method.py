import random, itertools
from comb_spec_searcher.rule_db.forest import TableMethod
from comb_spec_searcher.typing import ForestRuleKey, RuleBucket
def lfp(rules, ncls, cap):
    # terms computable: f[c] = number of terms (sizes 0..f-1 known), cap -> infinite
    f = [0]*ncls
    changed = True
    while changed:
        changed = False
        for (p, ch, sh) in rules:
            # can compute term of size f[p] if for all children i: f[p] - sh_i <= f[c_i]-1  i.e. f[c_i] + sh_i - f[p] > 0
            while f[p] < cap and all(f[c] >= cap or f[c] + s - f[p] > 0 for c, s in zip(ch, sh)):
                f[p] += 1; changed = True
    return f
random.seed(1)
bad = 0
for trial in range(3000):
    ncls = random.randint(1,5); nr = random.randint(1,7)
    rules = []
    for _ in range(nr):
        k = random.choice([0,1,1,2,2,3])
        rules.append((random.randrange(ncls), tuple(random.randrange(ncls) for _ in range(k)), tuple(random.randint(-2,2) for _ in range(k))))
    cap = 60
    ref = lfp(rules, ncls, cap)
    tb = TableMethod()
    order = rules[:]; random.shuffle(order)
    try:
        for (p,ch,sh) in order:
            tb.add_rule_key(ForestRuleKey(p,ch,sh,RuleBucket.NORMAL))
    except Exception as e:
        print("EXC", type(e).__name__, e, order); bad+=1; continue
    got = [tb._function[c] for c in range(ncls)]
    exp = [None if v>=cap else v for v in ref]
    if got != exp:
        bad += 1
        if bad < 6: print("MISMATCH", order, got, exp)
print("bad", bad)
