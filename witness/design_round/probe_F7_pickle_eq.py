import logzero, logging, pickle
logzero.loglevel(logging.ERROR)
from comb_spec_searcher import CombinatorialSpecificationSearcher
from comb_spec_searcher.rule_db import RuleDBForgetStrategy, RuleDBForest, RuleDB
from example import AvoidingWithPrefix, pack
for db in (RuleDB, RuleDBForgetStrategy, RuleDBForest):
    s = CombinatorialSpecificationSearcher(AvoidingWithPrefix("",["ababa","babb"],["a","b"]), pack, ruledb=db())
    s.do_level(); s.do_level()
    logzero.loglevel(logging.ERROR)
    try:
        t = pickle.loads(pickle.dumps(s))
        print(db.__name__, "equal:", s == t, "ruledb equal:", s.ruledb == t.ruledb, "classdb", s.classdb==t.classdb, "queue", s.classqueue==t.classqueue)
    except Exception as e:
        print(db.__name__, "raised", type(e).__name__, str(e)[:200])
