import json, logzero, logging
logzero.loglevel(logging.WARNING)
from comb_spec_searcher import CombinatorialSpecificationSearcher, CombinatorialSpecification
from example import AvoidingWithPrefix, pack
for pats in (["ababa","babb"],["aa"],["bb"],["aa","bb"],["b"],["ab"]):
    s = CombinatorialSpecificationSearcher(AvoidingWithPrefix("",pats,["a","b"]), pack)
    spec = s.auto_search()
    new = CombinatorialSpecification.from_dict(json.loads(json.dumps(spec.to_jsonable())))
    print(pats, spec==new, len(spec.rules_dict), len(new.rules_dict))
    if spec!=new:
        for k in set(spec.rules_dict)|set(new.rules_dict):
            a=spec.rules_dict.get(k); b=new.rules_dict.get(k)
            if a!=b: print("  DIFF", repr(k), type(a).__name__, type(b).__name__, a is not None and b is not None and (a.comb_class==b.comb_class, a.strategy==b.strategy, a.strategy.__dict__, b.strategy.__dict__))
