import sys, random, itertools, traceback
from pw import *
from comb_spec_searcher.utils import equal_counters
quiet()
random.seed(int(sys.argv[1]) if len(sys.argv)>1 else 0)
allp = ["".join(w) for L in (1,2,3) for w in itertools.product("ab", repeat=L)]
res = {}
def note(k,x): res.setdefault(k,[]).append(x)
for t in range(int(sys.argv[2]) if len(sys.argv)>2 else 30):
    pats = random.sample(allp, random.randint(1,3)); dbc = random.choice([RuleDB, RuleDBForest, RuleDBForgetStrategy])
    root = PW("", pats, "ab"); tag = (pats, dbc.__name__)
    try:
        s = CombinatorialSpecificationSearcher(root, ppack, ruledb=dbc()); quiet()
        spec = s.auto_search(max_expansion_time=10)
    except Exception as e:
        note("search:"+type(e).__name__+":"+str(e).split("\n")[0][:80], tag); continue
    try:
        ok = all(equal_counters(spec.get_terms(n), root.get_terms(n)) for n in range(7))
        note("terms ok" if ok else "TERMS WRONG", tag)
    except Exception as e:
        note("terms:"+type(e).__name__+":"+str(e).split("\n")[0][:80], tag); traceback.print_exc(limit=-3)
    try:
        for n in range(5):
            got = spec.get_objects(n); exp = root.get_objects(n)
            assert {k: sorted(v) for k,v in got.items() if v} == {k: sorted(v) for k,v in exp.items() if v}
        note("objects ok", tag)
    except Exception as e:
        note("objects:"+type(e).__name__+":"+str(e).split("\n")[0][:80], tag)
    try:
        for n in range(4):
            for params in root.possible_parameters(n):
                if spec.count_objects_of_size(n, **params) > 0:
                    o = spec.random_sample_object_of_size(n, **params); assert o.count("a") == params["x"] and len(o) == n
        note("sample ok", tag)
    except Exception as e:
        note("sample:"+type(e).__name__+":"+str(e).split("\n")[0][:80], tag)
    # every rule + reverses sanity
    try:
        for rule in list(spec):
            forms = [rule]
            orig = getattr(rule, "rules", None)
            if orig: forms = list(orig)
            for r in forms:
                for n in range(4): r.sanity_check(n)
                if r.is_reversible() and type(r).__name__ == "Rule":
                    for i in range(len(r.children)):
                        if r.children[i].is_empty(): continue
                        rr = r.to_reverse_rule(i)
                        for n in range(4): rr._sanity_check_count(n)
        note("rules sane", tag)
    except Exception as e:
        note("sanity:"+type(e).__name__+":"+str(e).split("\n")[0][:100], tag); 
    try:
        eqs = list(spec.get_equations()); note("eqs ok", tag)
    except Exception as e:
        note("eqs:"+type(e).__name__+":"+str(e).split("\n")[0][:80], tag)
for k,v in sorted(res.items()): 
    print(len(v), k)
    for x in v[:2]: print("     ", x)
