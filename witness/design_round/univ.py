"""Throwaway exploration universe: words strategies for probing (not part of /verif)."""
import itertools, logging, logzero
from comb_spec_searcher import (CombinatorialSpecificationSearcher, StrategyPack, AtomStrategy, SymmetryStrategy,
    DisjointUnionStrategy, StrategyFactory, VerificationStrategy)
from comb_spec_searcher.strategies.rule import Rule
from comb_spec_searcher.rule_db import RuleDB, RuleDBForest, RuleDBForgetStrategy
from example import AvoidingWithPrefix, ExpansionStrategy, RemoveFrontOfPrefix, Word
T = str.maketrans("ab","ba")
class Swap(SymmetryStrategy):
    def decomposition_function(self, c):
        return (AvoidingWithPrefix(c.prefix.translate(T), [p.translate(T) for p in c.patterns], c.alphabet, c.just_prefix),)
    def formal_step(self): return "swap"
    def forward_map(self, c, w, children=None): return (Word(w.translate(T)),)
    def backward_map(self, c, ws, children=None): yield Word(ws[0].translate(T))
    @classmethod
    def from_dict(cls, d): return cls(**d)
class Reduce(DisjointUnionStrategy):
    def __init__(self, ignore_parent=True, inferrable=True, possibly_empty=False, workable=True):
        super().__init__(ignore_parent=ignore_parent, inferrable=inferrable, possibly_empty=possibly_empty, workable=workable)
    def decomposition_function(self, c):
        red = [p for p in c.patterns if not any(q != p and q in p for q in c.patterns)]
        if len(red) == len(c.patterns): return None
        return (AvoidingWithPrefix(c.prefix, red, c.alphabet, c.just_prefix),)
    def formal_step(self): return "reduce"
    def forward_map(self, c, w, children=None): return (w,)
    @classmethod
    def from_dict(cls, d): return cls(**d)
class LazyFactory(StrategyFactory):
    def __call__(self, c):
        yield Rule(RemoveFrontOfPrefix(), c)
        yield ExpansionStrategy()
    def __str__(self): return "lazy"
    def __repr__(self): return "LazyFactory()"
    @classmethod
    def from_dict(cls, d): return cls()
class LongPrefix(VerificationStrategy):
    def verified(self, c): return not c.just_prefix and len(c.prefix) >= 2 and not c.is_empty()
    def formal_step(self): return "long prefix"
    def get_terms(self, c, n): return c.get_terms(n)
    def get_objects(self, c, n): return c.get_objects(n)
    def pack(self, c): return mkpack()
    @classmethod
    def from_dict(cls, d): return cls(**d)
def mkpack(sym=False, inf=False, fac=False, longv=False, iterative=False, initial=True):
    return StrategyPack(
        initial_strats=[RemoveFrontOfPrefix()] if initial and not fac else [],
        inferral_strats=[Reduce()] if inf else [],
        expansion_strats=[[LazyFactory()]] if fac else [[ExpansionStrategy()]],
        ver_strats=[AtomStrategy()] + ([LongPrefix()] if longv else []),
        name="p", symmetries=[Swap()] if sym else [], iterative=iterative)
def brute(pats, n, alphabet="ab"):
    return sum(1 for w in itertools.product(alphabet, repeat=n) if not any(p in "".join(w) for p in pats))
def quiet(): logzero.loglevel(logging.CRITICAL)
