import random
from comb_spec_searcher.equiv_db import EquivalenceDB
def scc_equiv(n, edges):
    reach = [[i==j for j in range(n)] for i in range(n)]
    for a,b in edges: reach[a][b]=True
    for k in range(n):
        for i in range(n):
            if reach[i][k]:
                for j in range(n):
                    if reach[k][j]: reach[i][j]=True
    return reach
random.seed(2); bad=0
for t in range(4000):
    n = random.randint(2,7); db = EquivalenceDB(); edges=[]; ver=set()
    for step in range(random.randint(1,14)):
        op = random.random()
        a,b = random.randrange(n), random.randrange(n)
        if op<0.3: db.add_two_way_edge(a,b); edges += [(a,b),(b,a)]
        elif op<0.75: db.add_one_way_edge(a,b); edges.append((a,b))
        elif op<0.9: db.set_verified(a); ver.add(a)
        else: db.connect_cycles()
    db.connect_cycles()
    reach = scc_equiv(n, edges)
    for i in range(n):
        for j in range(n):
            exp = reach[i][j] and reach[j][i]
            if db.equivalent(i,j) != exp:
                bad+=1
                if bad<5: print("EQ MISMATCH", edges, i, j, exp)
            elif exp and i!=j:
                p = db.find_path(i,j)
                ok = p[0]==i and p[-1]==j and all((x,y) in edges for x,y in zip(p,p[1:]))
                if not ok:
                    bad+=1
                    if bad<5: print("PATH BAD", edges, i,j,p)
        expv = any(reach[i][v] and reach[v][i] for v in ver)
        if db.is_verified(i)!=expv:
            bad+=1
            if bad<5: print("VER MISMATCH", edges, ver, i)
print("bad",bad)
