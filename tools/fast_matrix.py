#!/venv/bin/python
"""Development aid: every quick check against every kept patch (seeded changes and
behaviour-preserving refactorings), applied in memory (vstatic.mutants.apply_patch_overlay,
verified identical to `git apply` for all kept patches), one parsed program per patch.
Writes seeded/MATRIX.json + MATRIX.md (and each seed's caught_by) and prints the benign
summary.  usage: tools/fast_matrix.py [--seeds] [--benign] [<patch dir> ...]"""
import importlib
import json
import os
import sys
from concurrent.futures import ProcessPoolExecutor

sys.path.insert(0, "/verif")
from vstatic import mutants  # noqa
from vstatic.__main__ import available  # noqa
from vstatic.core.program import AnalysisError, Program  # noqa
from vstatic.core.report import Context  # noqa


def run_patch(pp):
    ov = mutants.apply_patch_overlay(pp, "/repo")
    if ov is None:
        return pp, {"error": "patch does not apply"}
    try:
        P = Program(overlay=ov)
    except Exception as e:  # noqa
        return pp, {"error": f"program: {e}"}
    res = {}
    for pid in available():
        mod = importlib.import_module(f"vstatic.checks.{pid}")
        ctx = Context(pid, "quick", P, quiet=True)
        try:
            mod.run(ctx)
            ctx.finish_floors() if hasattr(ctx, "finish_floors") else None
            if ctx.violations:
                res[pid] = {"exit": 1, "rules": sorted({v.rule for v in ctx.violations})}
            elif ctx.shortfalls:
                res[pid] = {"exit": 2, "rules": [], "why": ctx.shortfalls[0][:160]}
            else:
                res[pid] = {"exit": 0, "rules": []}
        except AnalysisError as e:
            if ctx.violations:
                res[pid] = {"exit": 1, "rules": sorted({v.rule for v in ctx.violations})}
            else:
                res[pid] = {"exit": 2, "rules": [], "why": str(e)[:160]}
        except Exception as e:  # noqa
            res[pid] = {"exit": 2, "rules": [], "why": f"crash {type(e).__name__}: {e}"[:160]}
    return pp, res


def main():
    args = sys.argv[1:]
    do_seeds = "--seeds" in args or not args
    do_benign = "--benign" in args or not args
    extra = [a for a in args if not a.startswith("--")]
    if any(a.startswith("--only=") for a in args):
        do_seeds = do_benign = False
    seeds = sorted(d for d in os.listdir("/verif/seeded") if os.path.isfile(f"/verif/seeded/{d}/patch.diff")) if do_seeds else []
    benign = sorted(d for d in os.listdir("/verif/benign") if os.path.isfile(f"/verif/benign/{d}/patch.diff")) if do_benign else []
    jobs = [f"/verif/seeded/{d}/patch.diff" for d in seeds] + [f"/verif/benign/{d}/patch.diff" for d in benign]
    for d in extra:
        jobs += sorted(os.path.join(d, k, "patch.diff") for k in os.listdir(d) if os.path.isfile(os.path.join(d, k, "patch.diff")))
    only = [a.split("=", 1)[1].split(",") for a in args if a.startswith("--only=")]
    if only:
        # recompute the rows of the named seeds only and merge them into the existing matrix
        jobs = [f"/verif/seeded/{d}/patch.diff" for d in only[0]]
    with ProcessPoolExecutor(max_workers=16) as ex:
        out = dict(ex.map(run_patch, jobs, chunksize=2))
    if only:
        old_mx = json.load(open("/verif/seeded/MATRIX.json"))
        for d in only[0]:
            old_mx[d] = out[f"/verif/seeded/{d}/patch.diff"]
        seeds = sorted(old_mx)
        out = {f"/verif/seeded/{d}/patch.diff": r for d, r in old_mx.items()}
        jobs = list(out)
    if seeds:
        mx = {d: out[f"/verif/seeded/{d}/patch.diff"] for d in seeds}
        json.dump(mx, open("/verif/seeded/MATRIX.json", "w"), indent=1, sort_keys=True)
        lines = ["| seed | breaks | caught by (check: rules) | own-property check |", "|---|---|---|---|"]
        n_own = n_any = 0
        for d in seeds:
            mp = f"/verif/seeded/{d}/meta.json"
            meta = json.load(open(mp))
            r = mx[d]
            if "error" in r:
                lines.append(f"| {d} | {meta['breaks_property']} | {r['error']} | - |")
                continue
            caught = {pid: v["rules"] for pid, v in r.items() if v["exit"] == 1}
            errs = [pid for pid, v in r.items() if v["exit"] == 2]
            own = meta["breaks_property"] in caught
            n_own += own
            n_any += bool(caught)
            meta["caught_by"] = caught
            meta["analysis_errors"] = errs
            json.dump(meta, open(mp, "w"), indent=1)
            lines.append(f"| {d} | {meta['breaks_property']} | " + ("; ".join(f"{p}: {','.join(rs)}" for p, rs in sorted(caught.items())) or "**missed**")
                         + (f" (analysis error in {','.join(errs)})" if errs else "") + f" | {'yes' if own else 'no'} |")
        lines += ["", f"{n_any} of {len(seeds)} seeded changes are reported by at least one check; {n_own} by the check of the property they were written against."]
        open("/verif/seeded/MATRIX.md", "w").write("\n".join(lines) + "\n")
        print(lines[-1])
        for d in seeds:
            r = mx[d]
            meta = json.load(open(f"/verif/seeded/{d}/meta.json"))
            if "error" in r or r[meta["breaks_property"]]["exit"] != 1:
                print("NOT CAUGHT BY OWN CHECK:", d, r.get("error") or r[meta["breaks_property"]])
    bad = 0
    for pp in jobs:
        if "/seeded/" in pp:
            continue
        r = out[pp]
        alarms = {pid: v for pid, v in r.items() if isinstance(v, dict) and v.get("exit")} if "error" not in r else {"?": r}
        if alarms:
            bad += 1
            print("ALARM", pp, {k: (v.get("rules") or v.get("why") or v) for k, v in alarms.items()})
    nb = len([p for p in jobs if "/seeded/" not in p])
    if nb:
        print(f"{nb} behaviour-preserving patches, {nb - bad} silent under all checks, {bad} with alarms / analysis errors")


if __name__ == "__main__":
    main()
