#!/venv/bin/python
"""usage: tools/keep_seed.py <src dir> <seed id> <property> "<confirm line>"  -- copy a confirmed
seeded change into /verif/seeded/<seed id>/ with meta.json."""
import json, os, shutil, sys
src, sid, prop, confirm = sys.argv[1:5]
dst = os.path.join("/verif/seeded", sid)
os.makedirs(dst, exist_ok=True)
for f in ("patch.diff", "demo.py", "notes.md"):
    if os.path.exists(os.path.join(src, f)):
        shutil.copy(os.path.join(src, f), os.path.join(dst, f))
notes = open(os.path.join(src, "notes.md")).read() if os.path.exists(os.path.join(src, "notes.md")) else ""
meta = {
    "seed_id": sid,
    "breaks_property": prop,
    "origin": "independent sub-agent given only the property text and its own scratch worktree",
    "needs_to_manifest": notes.strip()[:1500],
    "what_was_run": [
        "tools/confirm_seed.sh in a scratch worktree of /repo HEAD: demo.py on the clean tree (exit 0), "
        "demo.py with patch.diff applied (non-zero exit), pinned pytest suite with the patch applied",
        confirm,
    ],
}
json.dump(meta, open(os.path.join(dst, "meta.json"), "w"), indent=1)
print("kept", dst)
