#!/venv/bin/python
"""Development aid: apply each behaviour-preserving patch under <dir>/<k>/patch.diff to a scratch
worktree of /repo and run every quick check against it (VSTATIC_REPO); any outcome other than
OK is a false alarm (exit 1) or an analysis the rules could not complete (exit 2).
usage: tools/benign_matrix.py <dir> [<dir> ...]"""
import glob
import os
import subprocess
import sys
from concurrent.futures import ThreadPoolExecutor

sys.path.insert(0, "/verif")
from vstatic.__main__ import available  # noqa

WT = "/tmp/wt_benign"


def sh(*a, **k):
    return subprocess.run(a, capture_output=True, text=True, **k)


def one(patch, idx):
    wt = f"{WT}_{idx}"
    sh("git", "-C", "/repo", "worktree", "remove", "--force", wt)
    sh("git", "-C", "/repo", "worktree", "add", "--detach", wt, "HEAD")
    r = sh("git", "-C", wt, "apply", patch)
    out = []
    if r.returncode != 0:
        out.append(("?", "PATCH-DOES-NOT-APPLY", r.stderr.strip()[:100]))
    else:
        env = dict(os.environ, VSTATIC_REPO=wt, VSTATIC_NO_EVIDENCE="1", PYTHONPATH="/verif")
        for pid in available():
            c = sh("/venv/bin/python", "-m", "vstatic", "check", pid, env=env, cwd="/verif")
            if c.returncode != 0:
                lines = [l for l in c.stdout.splitlines() if "rule=" in l and "ANALYSED" not in l or l.startswith("ANALYSIS-ERROR")]
                out.append((pid, "VIOLATION" if c.returncode == 1 else "ANALYSIS-ERROR", " | ".join(l[:230] for l in lines[:3])))
    sh("git", "-C", "/repo", "worktree", "remove", "--force", wt)
    return patch, out


def main():
    patches = []
    for d in sys.argv[1:]:
        patches += sorted(glob.glob(os.path.join(d, "*", "patch.diff")))
    with ThreadPoolExecutor(max_workers=12) as ex:
        res = list(ex.map(lambda t: one(t[1], t[0]), enumerate(patches)))
    bad = 0
    for patch, out in res:
        if out:
            bad += 1
            for pid, kind, msg in out:
                print(f"{patch} {pid} {kind} {msg}")
        else:
            print(f"{patch} silent")
    print(f"{len(res)} patches, {len(res) - bad} silent under all checks, {bad} with alarms / analysis errors")


if __name__ == "__main__":
    main()
