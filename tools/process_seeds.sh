#!/bin/bash
# usage: tools/process_seeds.sh <dir with 1 2 3> <PROP> <id-prefix>  : confirm, keep (if confirmed), run own check
d=$1; prop=$2; prefix=$3
for k in 1 2 3 4; do [ -f $d/$k/patch.diff ] && echo $d/$k; done | xargs -P 4 -n 1 /verif/tools/confirm_seed.sh > $d/confirm.log 2>&1
cat $d/confirm.log
for k in 1 2 3 4; do
  line=$(grep "$d/$k " $d/confirm.log | cut -d' ' -f2-)
  if echo "$line" | grep -q "demo_clean_exit=0 demo_patched_exit=[1-9][0-9]* suite_exit=0 45 passed"; then
    /verif/tools/keep_seed.py $d/$k $prefix-$k $prop "$line" > /dev/null
    echo "== $prefix-$k kept; $prop check:"; /verif/tools/try_seed.sh $d/$k/patch.diff $prop | cut -c1-230
  else
    echo "== $prefix-$k NOT CONFIRMED: $line"
  fi
done
