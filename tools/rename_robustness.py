#!/venv/bin/python
"""Development aid: behaviour-preserving stress of the checkers.  For every function a check
says it analysed, alpha-rename all of that function's local variables (targets of
assignments / loops / with / except / comprehensions; not parameters, not names declared
global/nonlocal, not attributes) in an in-memory overlay and re-run the check: it must stay
silent.  Prints every (check, function) for which it does not."""
import ast
import os
import sys
from concurrent.futures import ProcessPoolExecutor

sys.path.insert(0, "/verif")
from vstatic.__main__ import available  # noqa
from vstatic.core.program import Program, repo_root  # noqa
from vstatic.core.report import Context  # noqa
import importlib  # noqa


def rename_function(src: str, qual: str):
    tree = ast.parse(src)
    parts = qual.split(".")
    body = tree.body
    node = None
    for p in parts:
        node = None
        for st in body:
            if isinstance(st, (ast.FunctionDef, ast.ClassDef)) and st.name == p:
                node = st
                break
        if node is None:
            return None
        body = node.body
    if not isinstance(node, ast.FunctionDef):
        return None
    params = {a.arg for a in node.args.posonlyargs + node.args.args + node.args.kwonlyargs}
    if node.args.vararg:
        params.add(node.args.vararg.arg)
    if node.args.kwarg:
        params.add(node.args.kwarg.arg)
    declared = set()
    stores = set()
    for n in ast.walk(node):
        if isinstance(n, (ast.Global, ast.Nonlocal)):
            declared.update(n.names)
        if isinstance(n, ast.Name) and isinstance(n.ctx, (ast.Store, ast.Del)):
            stores.add(n.id)
        if isinstance(n, ast.ExceptHandler) and n.name:
            pass  # handler names are not Name nodes; leave them
        if isinstance(n, (ast.FunctionDef, ast.ClassDef)) and n is not node:
            stores.discard(n.name)
    # nested function parameters keep their names
    for n in ast.walk(node):
        if isinstance(n, (ast.FunctionDef, ast.Lambda)) and n is not node:
            for a in n.args.posonlyargs + n.args.args + n.args.kwonlyargs:
                stores.discard(a.arg)
    targets = {s for s in stores if s not in params and s not in declared and not s.startswith("__") and s != "_"}
    if not targets:
        return None
    edits = []
    for n in ast.walk(node):
        if isinstance(n, ast.Name) and n.id in targets:
            edits.append((n.lineno, n.col_offset, n.id))
        # keyword arguments named like a local are not Names; nothing to do
    lines = src.split("\n")
    for lineno, col, name in sorted(edits, reverse=True):
        b = lines[lineno - 1].encode("utf-8")
        if b[col: col + len(name)] != name.encode():
            return None
        b = b[:col] + (name + "_r").encode() + b[col + len(name):]
        lines[lineno - 1] = b.decode("utf-8")
    new = "\n".join(lines)
    try:
        compile(new, "x", "exec")
    except SyntaxError:
        return None
    return new


def job(args):
    pid, rel, qual = args
    root = repo_root()
    src = open(os.path.join(root, rel), encoding="utf-8").read()
    new = rename_function(src, qual)
    if new is None:
        return (pid, qual, "skipped", "")
    P = Program(overlay={rel: new})
    mod = importlib.import_module(f"vstatic.checks.{pid}")
    ctx = Context(pid, "quick", P, quiet=True)
    try:
        mod.run(ctx)
    except Exception as e:
        return (pid, qual, "error", f"{type(e).__name__}: {e}"[:200])
    if ctx.violations:
        return (pid, qual, "FALSE-ALARM", "; ".join(f"{v.rule}: {v.msg[:80]}" for v in ctx.violations[:3]))
    if ctx.shortfalls:
        return (pid, qual, "error", ctx.shortfalls[0][:160])
    return (pid, qual, "ok", "")


def main():
    P = Program()
    index = {fi.qualname: fi for fi in P.all_functions()}
    jobs = []
    allf = "--all" in sys.argv
    pids = [a for a in sys.argv[1:] if not a.startswith("--")] or available()
    for pid in pids:
        mod = importlib.import_module(f"vstatic.checks.{pid}")
        ctx = Context(pid, "quick", P, quiet=True)
        mod.run(ctx)
        # by default only the functions the check declared as analysed; --all: every function of the package
        names = sorted(index) if allf else sorted(ctx.functions_analysed)
        for q in names:
            fi = index.get(q)
            if fi is None or fi.cls is None and "." in q and q.split(".")[0] not in ("tree_searcher", "utils"):
                fi = index.get(q)
            if fi is None:
                continue
            rel = os.path.relpath(fi.module.path, P.root)
            qual = fi.qualname if fi.cls is not None else fi.name
            jobs.append((pid, rel, qual))
    with ProcessPoolExecutor(max_workers=16) as ex:
        res = list(ex.map(job, jobs))
    bad = [r for r in res if r[2] in ("FALSE-ALARM", "error")]
    for r in bad:
        print(*r)
    print(f"{len(res)} renamed functions, {sum(1 for r in res if r[2]=='ok')} silent, {sum(1 for r in res if r[2]=='skipped')} skipped, {len(bad)} problems")


if __name__ == "__main__":
    main()
