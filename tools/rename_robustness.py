#!/venv/bin/python
"""Development aid: behaviour-preserving stress of the checkers (see vstatic/stress.py).
usage: tools/rename_robustness.py [C05 ...] [--all] [--rename] [--noop] [--annotate] [--hoist]"""
import sys

sys.path.insert(0, "/verif")
from vstatic.stress import main  # noqa

main()
