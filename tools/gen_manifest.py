#!/venv/bin/python
"""Generate /verif/MANIFEST.json and known_findings.json skeleton from the tables below
(development aid; the manifest is committed, this script is not a registered command)."""
import json
import os
import sys

sys.path.insert(0, "/verif")
PY = "/venv/bin/python"

CLAIMS = {
    "C01": dict(
        technique="composition of necessary structural conditions: search-loop guard rule, closure rules, provider wiring, conformance rules for the four counting recurrences (patterns over the canonical form, affine normaliser), composition-enumeration re-derivation, statistic-name plumbing",
        design="DESIGN.md sections 3 (engines N, G, S0/S3, M6, V) and 4 (C01)",
        text="No static rule decides counts. Decided here is the chain of structural conditions every count depends on, each for all "
             "inputs: rules are handed back only after has_specification(), from the same database, after every expansion slice, and "
             "become a specification rooted at the start class; the extracted rule set is closed and rooted at the right label; every "
             "rule's providers are the term functions of its own children and levels are appended one at a time, the first missing "
             "one; the union adds every child's terms at exactly n through that child's map; the product adds the product of the "
             "values of every combination over the complete bounded set of compositions under the position-wise sum of the mapped "
             "parameters; the complement subtracts the other children's terms at n from the original parent's; the quotient computes "
             "A (parent at n + shift minus compositions with the counted factor below n), C (other factors at the shift) and A / C, "
             "with the rule's own terms at the counted position; a count is the entry of level n for the parameters in the class's "
             "own order. Also: child_idx of an equivalence rule is the position of the kept child in the original rule; overridden static parameter maps are bound by name. Does NOT decide that together they give the true counts (that also needs the strategies' contracts).",
        note="Trusted: ast, control model, pattern matcher. Every clause is a necessary condition; the conjunction is not claimed to be sufficient.",
    ),
    "C02": dict(
        technique="coverage / no-silent-skip rules over the label-level closure built by the extractors and over the specification's rule dictionary; label-kind and pairing rules of engine K",
        design="DESIGN.md sections 3 (engine G) and 4 (C02)",
        text="Static analysis of the closure plumbing, not of the rule sets produced: every node of the proof tree records its actual "
             "rule; every right-hand label without a left-hand side (and the root) gets an equivalence path from itself to the actual "
             "parent standing for its representative, recorded step by step and cut short only at a class that already has a rule; "
             "every (parent, children) pair becomes a rule (forward, two-way narrowed to its equivalence form, or stored the other way "
             "round and reversed) or an error; the specification keys rules by their own class, wires every rule to get_rule after "
             "folding, makes up an empty rule only for a class without a rule that is empty, and folds equivalence chains without "
             "hiding a class of a real rule; stored strategies are re-applied to the class of their own key; the extractor is told the "
             "raw root; rules inside one equivalence class are dropped and cycles connected before collapsing; the explanation path "
             "follows recorded edges. Also: an equivalence walked backwards reverses the original rule at the position of the kept child. Does NOT decide productivity (C03/C05/C11) nor that a re-applied strategy returns the same "
             "children (C14). Also (round 8): a hidden class is walked for every equivalence chain through it; RuleDBBase.add does not give up on a test of what the stores already hold.",
        note="Trusted: ast, control model. Assumes strategies are deterministic.",
    ),
    "C03": dict(
        technique="derived-table maintenance rules (pairing of every writer of the function with the corrections of the tables defined from it; affine sign/index checks)",
        design='DESIGN.md sections 3 (engine F) and 4 (C03)',
        text="Static analysis of necessary structural clauses of the incremental table method, not of its result: the tables kept "
             "next to the function f (shifts = child value + shift - parent value; rules pumping / using a class; the value "
             "histogram) are defined from f and the inserted rules, and for every writer of f the matching correction of each table "
             "is present with the right sign, position and finiteness guard; every inserted key is recorded (a skip only for a key "
             "already present as a whole), registered for its parent and each finite child with its own position, and queued; a rule "
             "fires only when every shift is positive or infinite; a value above the gap is held back, released when the gap's right "
             "end grows (tested against the old gap), and declared infinite only after the queue is drained; the gap size is the "
             "largest |shift| of the rules' own shifts and only grows; the readers ask `f(label) is None`. Does NOT decide the gap "
             "argument itself (that the frozen values are exactly the classes that pump) nor preimage_gap's search.",
        note="Trusted: ast, the control model, the frozen description of the derived tables (engine docstring). A rearrangement of "
             "TableMethod the rules do not recognise ends in ANALYSIS-ERROR, not in a verdict.",
    ),
    "C04": dict(
        technique="ast provenance/alignment data-flow + who-may-record call-site rule",
        design='DESIGN.md sections 3 (engines P, T) and 4 (C04)',
        text='Static analysis of necessary structural clauses, not the behaviour: every (start, ends, rule) triple that reaches a rule database is computed from that same rule object (guarded start label, order-preserving unfiltered child labels); children are dropped only under possibly_empty AND is_empty and every other label is kept exactly once; strategy applications sit inside StrategyDoesNotApply handlers that neither yield nor record; the (class, label) arguments handed on belong together, including the class remembered per label in the expansion loop; emptiness has only sanctioned writers; class storage is append-only and compressed exactly once. what a factory yields is used as it is (a ready rule itself, a strategy applied to the class being expanded); every strategy kind takes missing children from decomposition_function; the possibly_empty question is asked of the rule passed in. Holds for all inputs because it is a property of every path of the enumerated functions; says nothing about whether strategies honour their contracts. Also (round 8): an argument named like an optional parameter of a method, left at its default by the call, is not passed under another parameter (J7 for method calls).',
        note="Trusted: CPython ast, the hand-written resolver/guard model (DESIGN.md 2.1, appendix B). Assumes "
             "strategies honour possibly_empty / StrategyDoesNotApply contracts.",
    ),
    "C05": dict(
        technique='label-kind (raw vs representative) abstract interpretation, evaluation-order / staleness rule, cache-invalidation dominance rule, purity and bisection conformance rules',
        design='DESIGN.md sections 3 (engine K) and 4 (C05)',
        text='Decides: every label handed to pruning / proof-tree code with a representative-keyed dictionary is a representative; every producer of a key up to equivalence sorts; rules inside one equivalence class are dropped by an equivalence test; one-way cycles are connected unconditionally before rules are collapsed and the cycle search has no early exit; every mutation of the stores resets the cached pruned dictionary and nobody else mutates them; a representative is never used across a call that may merge classes (evaluation order included); the one-way table is normalised and loss-free; the finders do not modify the dictionary they are handed; depth-first generators thread the seen-set; the smallest-tree search is a correct bisection. Also: every single-child rule reaches the equivalence database as an edge whatever its kind; the one-way table is merged, not assigned, under every construction form. Does NOT decide that prune computes the fixed point. Also (round 8): any local set that takes the neighbour inside connect_cycles" neighbour loop is a push-time mark; a result memo of the tree search names every argument the work reads.',
        note="Trusted: ast, kind tables read from the code (section 3). Partial by design.",
    ),
    "C06": dict(
        technique="label-kind inference inside the union-find + representation-discipline rules (verified flag, edges, cycle merge, path)",
        design='DESIGN.md sections 3 (engine K, K12-K17) and 4 (C06)',
        text="Decides the soundness side only: equivalence and verification are decided through find, the verified mark lives on "
             "representatives and is carried over every merge, merges link roots and keep weights in step, two-way edges are recorded "
             "both ways, one-way edges enter a normalised loss-free table and are merged only along a closed cycle, the cycle search is "
             "never skipped, explanation paths follow recorded edges from the first label to the second. Also: an equivalence walked backwards reverses the original rule at the position of the kept child; every single-child rule is recorded as an edge. Does NOT decide completeness "
             "of the cycle search (that every strongly connected component is found). Also (round 8): RuleDBBase.add files by the rule that arrives, not by what the stores hold; Optional[int] results are tested with `is None`.",
        note="Trusted: ast, kind inference (self[x] is a representative inside EquivalenceDB). Partial by design: 'exactly' is not decided.",
    ),
    "C07": dict(
        technique="structural inverse-pair check of derived-rule maps + alignment data-flow",
        design='DESIGN.md sections 3 (engines M, V, S0) and 4 (C07)',
        text='Decides the round-trip plumbing of derived rule forms (same slot in forward/backward, reversed fold order for paths), the wiring of object generation (sub-providers aligned with children, one complete level appended per iteration, the first missing level computed), that generation and counting of a product run over the same index set utils.compositions(n, k, min_sizes, max_sizes) whose bounds and completeness are re-derived (S0), and the parameter maps that key the objects. Necessary for map/unmap round trips and for generated sets agreeing with counts; Also: no object map that the derived rule forms override is bypassed by a copy of the base delegate or a call pinned to the base class. does not decide set equality of generated objects.',
        note="Trusted: ast; assumes the original strategy's maps are mutually inverse.",
    ),
    "C08": dict(
        technique="inverse-CDF walk shape analysis (draw range, accumulator, comparison normal form)",
        design='DESIGN.md sections 3 (engines U, V, M) and 4 (C08)',
        text="Decides that each threshold walk is an exact inverse-CDF walk over the weights it accumulates (draw range/comparison pair, accumulate-before-compare, weight and sampler use the same translated parameters), that N is the rule's own count, that the preimage pick is uniform, that the refusal guard dominates sampling and is evaluated per query, that the parameter split of a product offers each child the intersection of its own interval with what the rest can absorb, that queries never write constructor tables through an alias, and that derived rule forms map through the same slot both ways. Also: the same dispatch rule for the object maps; an absent maximum bounds nothing in the reliance profile. Does not decide that the weights are true counts. Also (round 8): the bounds of the remaining children are computed inside the recursive helper of _valid_compositions.",
        note="Trusted: ast; arithmetic normalisation of comparison idioms (appendix B).",
    ),
    "C09": dict(
        technique="variable-namespace kind inference (parent vs child statistic names / positions)",
        design='DESIGN.md sections 3 (engines V, S0, M6, U7) and 4 (C09)',
        text="Decides namespace and position-space discipline of the four constructors and the derived constructors: child terms are re-keyed through that child's own fresh multi-valued table in the right direction, per-child maps are paired with per-child terms, zero sets are parent names, queries do not mutate the tables; products count over the complete, bounded enumeration utils.compositions (S0) with all provider combinations, and parameter splits are interval intersections. Also: one complete level of terms is computed before it is appended; a static parameter map that a constructor overrides is bound by the name of that constructor. Does not decide the arithmetic of the recurrences. Also (round 8): constructors keep the strategy's parameter dictionaries as given; the parameter map a Quotient resolves to assigns and does not accumulate.",
        note="Trusted: ast, kind tables (section 3, engine V). Partial by design.",
    ),
    "C10": dict(
        technique="affine size-flow bounds analysis (abstract interpretation over concrete arities)",
        design='DESIGN.md sections 3 (engine S), 4 (C10) and appendix A',
        text="Decides the property itself for the constructors and rule forms defined in the package, for every "
             "rule arity up to K and every flipped index: each provider call is bounded by n minus the declared "
             "shift of that position (affine certificate per obligation). Does not cover user-defined constructors "
             "or arities above K. Also (round 8): the table method keeps its books after every increase (F2, F3, F5-F8), on which the 'hence' clause rests.",
        note="Assumes minimum_size_of_object() >= 0 and that no statistic is named 'n'. Trusted: the evaluator "
             "(appendix A) and its summary of utils.compositions, itself re-derived (rule S0).",
    ),
    "C11": dict(
        technique='enumeration/exhaustiveness, sibling agreement, memo-purity and alias-discipline rules over forest.py and every forest_key implementation',
        design='DESIGN.md sections 3 (rules E, W4) and 4 (C11)',
        text='Decides: every bucket a rule can be filed under is minimised, REVERSE first; all forest_key call sites use the same (get_label, is_empty) pair and every reverse form is considered under exactly the is_reversible() guard, at insertion and at recovery; a recomputed rule is returned only when its key equals the requested one; factory-made rules are probed under a StrategyDoesNotApply handler; every key of the pumping sub-universe is filed (no projection-based skip); a key is never memoised on the rule across class databases; aliases of owned containers are updated in place; the whole pack is replayed. Also: the three forest_key forms build (parent label, child labels in order, shifts) alike and the shifts of a derived rule are position by position those of its own children; a needed key found in the rule cache is not recomputed. Does not decide minimality/productivity of the extracted set. Also (round 8): the table rules() answers needed keys from holds each rule under its own forest key (traced to its writers); no class is tested after its base class in an isinstance chain of the key builders.',
        note="Trusted: ast. Partial by design.",
    ),
    "C12": dict(
        technique="writer/reader convention agreement by side inference (data flow from parameter positions), inverse-data and argument-order rules, release-on-every-exit pairing",
        design='DESIGN.md sections 3 (engine B) and 4 (C12)',
        text="Static analysis of necessary structural clauses of the matcher and the parse-tree transport, not of the transported "
             "objects: the permutation recorded per matched pair is written as perm[position in spec 2] = position in spec 1 under the "
             "key (node of spec 1, node of spec 2) and read with the same convention and key orientation; the inverse order map is the "
             "inverse permutation under the swapped key and map / inverse_map hand over all-forward or all-inverse (domain, codomain, "
             "order map, index data); both sides skip exactly the empty children; the backtracking offers every unused position once "
             "and stores a permutation only when complete; ancestors and the path tracker are released on every exit; base cases "
             "(arity, leaves = two atoms that agree, constructors before recursion) and the one-sided equivalence steps are wired "
             "alike on both sides (every domain-only step moves the forward image on and is reachable while the codomain's rule is "
             "already a leaf); what the matcher remembers is keyed by pairs of nodes and released on every way out of a step; no object map of the derived rule forms is bypassed by a copy of the base delegate; the inverse permutation is a closed form known to be the inverse; the JSON maps keep the orientation; the derived rules' maps use the same slot both ways. Does NOT "
             "decide that the image is the right object (needs the strategies' own maps) nor reflexivity / symmetry as such. Also (round 8): a rule form that overrides forward_map / backward_map below the class its indexed_* version comes from is reached by that version through self.forward_map / self.backward_map; the image of a leaf is generated from rule.comb_class.",
        note="Trusted: ast, side inference (the side of an index is the position of the recursive call's argument it occurs in). "
             "Assumes strategy maps are mutually inverse and constructor.equiv is an equivalence relation.",
    ),
    "C13": dict(
        technique='label-kind abstract interpretation + writer/reader convention agreement by side inference + two-sided acceptance rule',
        design='DESIGN.md sections 3 (engines K, B) and 4 (C13)',
        text="Decides that the specification-building site of the parallel finder tells the extractor the raw start label of the very class the specification is rooted at; that every label handed to representative-keyed structures is a representative; that a stored strategy is re-applied to the class of its own key; that partial extractors index children through the order map; that the equivalence path starts at a raw label; that the finder's permutation convention agrees with its reader, its backtracking offers every unused position once, and its second search settles a pair only when both sides are assigned; that the matcher follows chains of equivalence rules; that an exhausted queue is a failure only after has_specification() was asked again inside the handler; that the rule paths of two equivalence classes are compared pairwise only at equal length and on every visit of an already placed pair. that the bookkeeping stacks of both finders are balanced on every way out of a step; that no call is pinned to the base finder where the Eq-path finder overrides; that store keys are (label, tuple of labels). Necessary for totality; does not decide validity / isomorphism of the outputs. Also (round 8): a representative stored by ParallelInfo is read after the expansion; the first complete child matching of a rule pair ends the backtracking; no label without a left-hand side is skipped before its equivalence path is walked.",
        note="Trusted: ast, kind tables (appendix B).",
    ),
    "C14": dict(
        technique="key-shape inference + mapping-protocol completeness + normal-form sibling agreement",
        design="DESIGN.md sections 3 (engines T', T, K8) and 4 (C14)",
        text='Decides that every store access uses an (int, tuple) key, that both store implementations provide every operation used and agree on the key normal form and on the two-way predicate, that recomputation replays the whole pack, returns a strategy only for the requested key, applies it to the class of its own key, and only calls total ClassDB operations. Also: the pack handed to the recomputing stores is not a one-shot iterable. Does not decide that recomputation returns the same strategy when several apply. Also (round 8): the recomputing store keeps every key it is given, the replay skips a (label, strategy) pair only for "does not apply" / wrong kind, and every exception AbstractRule.children raises is caught where the replay reads rule.children.',
        note="Trusted: ast.",
    ),
    "C15": dict(
        technique="container-kind/handler agreement, range-guard dominance, writer-set and compression-state rules",
        design='DESIGN.md sections 3 (engine T) and 4 (C15)',
        text="Decides totality of lookups (range / handler discipline), append-only parallel storage with label = "
             "index, exactly-once compression with an inverse decompression pipeline, the sanctioned writers of "
             "the emptiness cache, that a label handed to the emptiness API is turned into its class before it is asked, and that "
             "membership of the total label/class mappings is decided by get(...) is not None. Each is a literal clause of the property; user-class __eq__/__hash__ are assumed. Also: a class-or-label argument is brought to one form before it is read.",
        note="Trusted: ast and the guard model (appendix B).",
    ),
    "C16": dict(
        technique="guard/pairing/ordering rules over the queue's control structure (dominance, followed-by)",
        design='DESIGN.md sections 3 (engine Q) and 4 (C16)',
        text="Decides the guard, pairing and ordering clauses of DefaultQueue (hand-out check after dequeue, monotone "
             "ignore set, once-only flags set after the yield inside the same guard, exhaustion before bookkeeping, "
             "expansion order, one fresh container per stage, no exit between taking a label from working and carrying it to the next level). Also: no mutable state of the queue lives in the class body. Does not decide completeness after draining or termination.",
        note="Trusted: ast and the control model (appendix B).",
    ),
    "C17": dict(
        technique="state-closure picklability/equality analysis + time-taint reachability over the call graph",
        design='DESIGN.md sections 3 (engine R, K5/K6/K18) and 4 (C17)',
        text="Decides that no attribute in the searcher's state closure is unpicklable, that every class in the closure compares by value, that time-dependent control can only interrupt between work packets, that an optional time limit is compared with None (0 is a limit), that the queue never takes a label out of a set by position (set order does not survive pickling), that the memory-saving store can read every stored rule back (lazy StrategyDoesNotApply handled per item), that no one-shot iterable is kept in an attribute (declared Iterable parameters are materialised, no call site hands a generator to a keeping parameter), that a class defining __hash__ defines __eq__, that classes are marked verified from the dictionary stored as pruned and queries leave no defaultdict entries behind, that there is no module-level or class-level mutable state, and that specification queries leave the state they read unchanged (cache reset discipline, loss-free one-way table, finders do not modify the dictionary). Does not decide that the continuation visits the same work in the same order. Also (round 8): an __eq__ comparing instance dictionaries leaves the back-reference to the searcher out by the name link_searcher actually sets.",
        note="Trusted: ast, attribute-type table, call graph over resolved callees.",
    ),
    "C18": dict(
        technique="writer/reader key-table agreement per to_jsonable/from_dict pair + equality-purity rule",
        design='DESIGN.md sections 3 (engine J) and 4 (C18)',
        text="Decides that the key set written equals the key set consumed for every serialisable class, that every constructor setting is written and travels back to the same parameter, that derived forms are rebuilt through their own constructor, that nothing but settings can enter the __dict__ equality compares, that the bijection's nested maps keep their orientation and every pair, (two readers of maps written by one helper agree), that a rule rebuilt by re-applying its strategy passes nothing but the saved class, that a class compared by __dict__ rebuilds list-saved attributes as fixed containers to the saved depth, that the specification writes every rule it holds and makes up an empty rule only for a class without one after is_empty() was asserted. Also: ids of dumped classes are positions in the array, labels are assigned after the rules have their final form, __hash__ comes with __eq__. Does not decide behavioural equality of reloaded objects. Also (round 8): from_dict hands the rules to the constructor with the constant group_equiv=False.",
        note="Trusted: ast. User classes outside the repository are not covered.",
    ),
    "C19": dict(
        technique='exit-condition and copy-before-share escape analysis of expand_verified / expand_comb_class',
        design='DESIGN.md sections 3 (rules X, E3, A1/A2) and 4 (C19)',
        text='Decides the exit condition of expand_verified (only the specification just re-examined is returned, the loop never reads the original), that every rule object of the original passes through copy before reaching the new database, that the new search is rooted and seeded from the same root with aligned labels and the expanded class excluded, that verified labels stay in the queue, that every reverse form is inserted, that the attempt without reverse rules falls back to the attempt with them exactly on SpecificationNotFound, and that the inner search records each rule under the label of its own parent (a rule is skipped as trivial only when its own parent is its only child). Also: a class-or-label argument is brought to a class before it is used, the default pack refusal is the exception that is skipped, a cached rule is not recomputed. Does not decide enumeration preservation. Also (round 8): what the search raises on an exhausted universe is what expand_comb_class catches; a memo across the rounds of expand_verified is not keyed by a part of the object the value is asked of.',
        note="Trusted: ast.",
    ),
    "C20": dict(
        technique='variable-namespace kind inference on substitution tables + fallback discipline + symbolic evaluation of get_equation over Laurent polynomials',
        design='DESIGN.md sections 3 (engines V, S/V9) and 4 (C20)',
        text="Decides that every substitution table is {child var: product of the parent vars mapped onto it} built from that child's own table and paired with that child's function, that unsupported constructors refuse with NotImplementedError and the only fallback is the original rule's equation, and - by abstract interpretation over Laurent polynomials in opaque function symbols - that the four constructors' equations for classes without statistics have the forms f0+f1+..., f0-f1-..., f0*f1*..., f0/(f1*...) for every arity up to K and flipped index. Also: child_idx of an equivalence rule is the position of the kept child in the original rule; overridden static parameter maps are bound by name. Does not decide equations with statistics nor genf selection. Also (round 8): get_label alone writes the label tables (labels stay dense); taylor_expand rejects a candidate only when computing its series fails.",
        note="Trusted: ast. Partial by design.",
    ),
}

NOT_APPLICABLE = {
}


Y_TEXT = (" In the modules the property is anchored in (engine Y): no method used as a truth value without being called, no one-shot iterator kept or "
          "read twice, no cache decorator on a generator / instance method, no written-to mutable default, no class-level container written through "
          "instances, no hash()/id() key of a lasting container, no memo whose key leaves out an argument the value depends on, no Optional result "
          "computed with `and`, no labelling in set order, no copy / pickle hook that does anything but carry the whole instance dictionary over, "
          "no discarded result of a method that only builds a new object; and (rounds 8-11, Y12-Y29) no class tested after its base class in a chain of leaving "
          "isinstance tests, no closure made in a loop that outlives the round, no identity comparison of values or classes, no mutable object repeated by `*` / "
          "fromkeys, no __exit__ that swallows, no backing attribute of a property read from outside, no negated computed slice bound, no tuple-returning call or "
          "Optional[int] taken for a truth value, slices of one sequence re-assembled consistently, no in-place reorder of a list that is read by position, no "
          "conditional expression swallowing an operand, no **kwargs order used as a position, no given optional argument re-bound, fixpoint flags only raised, "
          "no dead `is None` test after a coalescing, **kwargs passed on by same-name delegates, no accumulator created inside its loop. The rules added after "
          "rounds 9-11 (DESIGN.md section 3) are clauses of the same kind; the authoritative list per property is coverage.rule_instances of the evidence file.")


def main():
    here = os.path.join("/verif", "vstatic", "checks")
    checks = []
    na = [dict(property_id=k, reason=v) for k, v in sorted(NOT_APPLICABLE.items())]
    for pid in sorted(CLAIMS):
        c = CLAIMS[pid]
        if not os.path.exists(os.path.join(here, pid + ".py")):
            na.append(dict(property_id=pid, reason="planned (see " + c["design"] + ") but the checker is not finished to the "
                           "no-false-alarm standard in this round; not claimed until it is"))
            continue
        checks.append(
            dict(
                property_id=pid,
                quick_cmd=f"{PY} -m vstatic check {pid} --tier quick",
                thorough_cmd=f"{PY} -m vstatic check {pid} --tier thorough",
                evidence_file=f"/verif/evidence/{pid}.json",
                replay_cmd_template=f"{PY} -m vstatic replay {{path}}",
                engine="vstatic",
                level_claimed=dict(category="other", text=c["text"] + Y_TEXT, design_ref=c["design"]),
                level_note=c["note"],
                technique="static analysis: " + c["technique"],
            )
        )
    na.sort(key=lambda d: d["property_id"])
    man = dict(
        version=1,
        setup_cmd=f"{PY} -m vstatic selfcheck",
        hooks=dict(
            guard="COMB_SPEC_SEARCHER_VERIF",
            enable="none needed: the analysis reads /repo's source and never runs it; no hook commits exist",
            baseline_off_cmd="cd /repo && /venv/bin/python -m pytest -ra -q -p no:cacheprovider --timeout=900 --continue-on-collection-errors",
            source_commits=[],
            add_only=True,
        ),
        engines=[
            dict(name="vstatic", path="/verif/vstatic", serves_properties=[c["property_id"] for c in checks],
                 kind_free_text="repository-specific static analysis over Python's ast (no execution, no solver): class index, "
                                "resolver, structured control model, provenance/kind data-flow, affine size-flow bounds"),
        ],
        checks=checks,
        notes="All checks are static analysis of /repo's current working tree (technique family fixed by the task). Every claim "
              "is partial: it decides a named structural clause that is a necessary condition of the property (DESIGN.md section 4). "
              "Exit 2 / ANALYSIS-ERROR means the analysis could not run (anchor vanished, floor not met), never a verdict.",
        not_applicable=na,
    )
    with open("/verif/MANIFEST.json", "w") as f:
        json.dump(man, f, indent=1)
    print("claimed", [c["property_id"] for c in checks], "n/a", [d["property_id"] for d in na])


if __name__ == "__main__":
    main()
