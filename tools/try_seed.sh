#!/bin/bash
# usage: tools/try_seed.sh <patch.diff> <PID> [<PID>...]   -- applies the patch to a scratch
# worktree of /repo HEAD (never to /repo), runs the quick checks against it, removes it.
set -u
patch=$1; shift
wt=$(mktemp -d /tmp/seedwt.XXXXXX)
git -C /repo worktree add -q --detach "$wt" HEAD >/dev/null 2>&1 || exit 3
if ! git -C "$wt" apply "$patch" 2>/dev/null && ! git -C "$wt" apply --3way "$patch"; then echo "PATCH-DOES-NOT-APPLY"; git -C /repo worktree remove --force "$wt"; exit 3; fi
for pid in "$@"; do
  VSTATIC_REPO="$wt" /venv/bin/python -m vstatic check "$pid" 2>&1 | grep -v "^ANALYSED" | sed "s#$wt/##"
done
git -C /repo worktree remove --force "$wt"
