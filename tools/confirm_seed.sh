#!/bin/bash
# usage: tools/confirm_seed.sh <seed dir with patch.diff + demo.py>  -> prints one summary line
# Confirms in a scratch worktree of /repo HEAD: demo passes clean, fails with the patch,
# and the pinned test suite still passes (45) with the patch.  Removes the worktree.
set -u
d=$1
wt=$(mktemp -d /tmp/confwt.XXXXXX)
git -C /repo worktree add -q --detach "$wt" HEAD >/dev/null 2>&1 || { echo "$d worktree-failed"; exit 3; }
cd "$wt"
PYTHONPATH="$wt" timeout 300 /venv/bin/python "$d/demo.py" >"$d/demo_clean.log" 2>&1; c=$?
if ! git -C "$wt" apply "$d/patch.diff" 2>"$d/apply.log"; then echo "$d PATCH-DOES-NOT-APPLY"; cd /; git -C /repo worktree remove --force "$wt"; exit 3; fi
PYTHONPATH="$wt" timeout 300 /venv/bin/python "$d/demo.py" >"$d/demo_patched.log" 2>&1; p=$?
PYTHONPATH="$wt" /venv/bin/python -m pytest -q -p no:cacheprovider --timeout=900 -n 4 >"$d/suite_patched.log" 2>&1; s=$?
passed=$(grep -Eo "[0-9]+ passed" "$d/suite_patched.log" | tail -1)
failed=$(grep -Eo "[0-9]+ failed" "$d/suite_patched.log" | tail -1)
echo "$d demo_clean_exit=$c demo_patched_exit=$p suite_exit=$s ${passed:-0 passed} ${failed:-0 failed}"
cd /; git -C /repo worktree remove --force "$wt"
