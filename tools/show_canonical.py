#!/venv/bin/python
"""Development aid: print the canonical form (single-use locals folded) of functions.
usage: tools/show_canonical.py Class.method [Class.method ...]"""
import ast
import sys

sys.path.insert(0, "/verif")
from vstatic.core.program import Program  # noqa

P = Program()
idx = {fi.qualname: fi for fi in P.all_functions()}
for q in sys.argv[1:]:
    fi = idx.get(q)
    if fi is None:
        print("??", q)
        continue
    print(ast.unparse(fi.node))
    print()
