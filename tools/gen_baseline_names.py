#!/venv/bin/python
"""Write vstatic/baseline_names.json: the functions of the package that exist now, i.e. that the
rules can name.  Helpers that are not in this list are read through (core/inline.py).
Re-run only when rules have been (re)written against the current tree."""
import json
import os
import sys

sys.path.insert(0, "/verif")
os.environ["VSTATIC_NO_INLINE"] = "1"
from vstatic.core.program import Program  # noqa
from vstatic.core.inline import function_names  # noqa

P = Program(root="/repo")
names = sorted(function_names({m: mi.tree for m, mi in P.modules.items()}))
json.dump({"comment": "functions of comb_spec_searcher known to the rules; newer private helpers are expanded at their call sites", "functions": names},
          open("/verif/vstatic/baseline_names.json", "w"), indent=0)
print(len(names), "functions")
