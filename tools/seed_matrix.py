#!/venv/bin/python
"""Development aid: run every quick check against every kept seeded change (each applied to
its own scratch worktree of /repo HEAD, never to /repo) and write seeded/MATRIX.json +
seeded/MATRIX.md.  Also updates each seed's meta.json with the checks/rules that catch it."""
import json, os, subprocess, sys, tempfile, re
from concurrent.futures import ThreadPoolExecutor

sys.path.insert(0, "/verif")
from vstatic.__main__ import available  # noqa

SEEDS = sorted(d for d in os.listdir("/verif/seeded") if os.path.isdir(os.path.join("/verif/seeded", d)))


def run_seed(sid):
    d = os.path.join("/verif/seeded", sid)
    wt = tempfile.mkdtemp(prefix="mxwt.", dir="/tmp")
    os.rmdir(wt)
    subprocess.run(["git", "-C", "/repo", "worktree", "add", "-q", "--detach", wt, "HEAD"], check=True, capture_output=True)
    res = {}
    try:
        ap = subprocess.run(["git", "-C", wt, "apply", os.path.join(d, "patch.diff")], capture_output=True)
        if ap.returncode != 0:
            ap = subprocess.run(["git", "-C", wt, "apply", "--3way", os.path.join(d, "patch.diff")], capture_output=True)
        if ap.returncode != 0:
            return sid, {"error": "patch does not apply"}
        for pid in available():
            p = subprocess.run(["/venv/bin/python", "-m", "vstatic", "check", pid], cwd="/verif", capture_output=True, text=True,
                               env={**os.environ, "VSTATIC_REPO": wt, "VSTATIC_NO_EVIDENCE": "1"})
            rules = sorted(set(re.findall(r":\d+ rule=(\w+) instance=", p.stdout)))
            res[pid] = {"exit": p.returncode, "rules": rules}
    finally:
        subprocess.run(["git", "-C", "/repo", "worktree", "remove", "--force", wt], capture_output=True)
    return sid, res


def main():
    with ThreadPoolExecutor(max_workers=14) as ex:
        out = dict(ex.map(run_seed, SEEDS))
    json.dump(out, open("/verif/seeded/MATRIX.json", "w"), indent=1, sort_keys=True)
    lines = ["| seed | breaks | caught by (check: rules) | own-property check |", "|---|---|---|---|"]
    n_own = n_any = 0
    for sid in SEEDS:
        meta_p = os.path.join("/verif/seeded", sid, "meta.json")
        meta = json.load(open(meta_p))
        r = out[sid]
        if "error" in r:
            lines.append(f"| {sid} | {meta['breaks_property']} | {r['error']} | - |")
            continue
        caught = {pid: v["rules"] for pid, v in r.items() if v["exit"] == 1}
        errs = [pid for pid, v in r.items() if v["exit"] == 2]
        own = meta["breaks_property"] in caught
        n_own += own
        n_any += bool(caught)
        meta["caught_by"] = caught
        meta["analysis_errors"] = errs
        json.dump(meta, open(meta_p, "w"), indent=1)
        lines.append(f"| {sid} | {meta['breaks_property']} | " + ("; ".join(f"{p}: {','.join(rs)}" for p, rs in sorted(caught.items())) or "**missed**")
                     + (f" (analysis error in {','.join(errs)})" if errs else "") + f" | {'yes' if own else ('n/a' if meta['breaks_property'] not in available() else 'no')} |")
    lines.append("")
    lines.append(f"{n_any} of {len(SEEDS)} seeded changes are reported by at least one check; {n_own} by the check of the property they were written against.")
    open("/verif/seeded/MATRIX.md", "w").write("\n".join(lines) + "\n")
    print(lines[-1])


if __name__ == "__main__":
    main()
